//! E1 — generated family of constraint systems (`GenCircuit`).
//!
//! A `Circuit<F>` whose `Params = GenSpec`. `configure_with_params` builds the constraint system
//! from the spec (phases, blinded/unblinded advice, fixed and instance columns, challenges,
//! multiplicative- and additive-selector gates with random expression trees, `lookup` /
//! `lookup_any` arguments, equality and constants). A *plan* — which rows every gate / lookup is
//! enabled on, which cells are inputs, copies, constants, instance cells — is derived from the
//! spec alone (never from values), so the structure is witness-independent by construction; the
//! witness is then obtained by walking the plan: inputs are sampled, every gate has the shape
//! `q · (out − G(inputs))` with a dedicated output cell, so outputs are computed.
//! A fault list (cell → new value) is applied inside `synthesize`, so the same circuit can be
//! proven with a violated assignment without any repository hook.

use std::collections::{BTreeMap, BTreeSet};

use ff::{FromUniformBytes, PrimeField};
use midnight_proofs::{
    circuit::{Layouter, SimpleFloorPlanner, Value},
    plonk::{
        Advice, Challenge, Circuit, Column, ConstraintSystem, Constraints, Error, Expression,
        FirstPhase, Fixed, Instance, SecondPhase, Selector, TableColumn, ThirdPhase,
    },
    poly::Rotation,
};
use rand::{seq::SliceRandom, Rng};
use rand_chacha::ChaCha8Rng;
use serde::{Deserialize, Serialize};

use crate::common::rng_for;

// ---------------------------------------------------------------------------------------------
// Spec
// ---------------------------------------------------------------------------------------------

#[derive(Clone, Debug, Serialize, Deserialize, PartialEq, Eq, Hash)]
pub struct AdvSpec {
    pub phase: u8,
    pub unblinded: bool,
    pub equality: bool,
}

#[derive(Clone, Debug, Serialize, Deserialize, PartialEq, Eq, Hash)]
pub enum GExpr {
    C(u64),
    Adv(usize, i32),
    Fix(usize, i32),
    Inst(usize, i32),
    Chal(usize),
    Neg(Box<GExpr>),
    Add(Box<GExpr>, Box<GExpr>),
    Mul(Box<GExpr>, Box<GExpr>),
    Scale(Box<GExpr>, u64),
}

impl GExpr {
    pub fn degree(&self) -> usize {
        match self {
            GExpr::C(_) | GExpr::Chal(_) => 0,
            GExpr::Adv(..) | GExpr::Fix(..) | GExpr::Inst(..) => 1,
            GExpr::Neg(a) | GExpr::Scale(a, _) => a.degree(),
            GExpr::Add(a, b) => a.degree().max(b.degree()),
            GExpr::Mul(a, b) => a.degree() + b.degree(),
        }
    }
    fn visit<'a>(&'a self, f: &mut impl FnMut(&'a GExpr)) {
        f(self);
        match self {
            GExpr::Neg(a) | GExpr::Scale(a, _) => a.visit(f),
            GExpr::Add(a, b) | GExpr::Mul(a, b) => {
                a.visit(f);
                b.visit(f)
            }
            _ => {}
        }
    }
    pub fn adv_queries(&self) -> BTreeSet<(usize, i32)> {
        let mut s = BTreeSet::new();
        self.visit(&mut |e| {
            if let GExpr::Adv(c, r) = e {
                s.insert((*c, *r));
            }
        });
        s
    }
    pub fn fix_queries(&self) -> BTreeSet<(usize, i32)> {
        let mut s = BTreeSet::new();
        self.visit(&mut |e| {
            if let GExpr::Fix(c, r) = e {
                s.insert((*c, *r));
            }
        });
        s
    }
    pub fn inst_queries(&self) -> BTreeSet<(usize, i32)> {
        let mut s = BTreeSet::new();
        self.visit(&mut |e| {
            if let GExpr::Inst(c, r) = e {
                s.insert((*c, *r));
            }
        });
        s
    }
    pub fn challenges(&self) -> BTreeSet<usize> {
        let mut s = BTreeSet::new();
        self.visit(&mut |e| {
            if let GExpr::Chal(c) = e {
                s.insert(*c);
            }
        });
        s
    }
}

/// One constraint `out − G` of a gate.
#[derive(Clone, Debug, Serialize, Deserialize, PartialEq, Eq, Hash)]
pub struct ConsSpec {
    /// advice column and rotation of the dedicated output cell
    pub out: (usize, i32),
    pub g: GExpr,
}

#[derive(Clone, Debug, Serialize, Deserialize, PartialEq, Eq, Hash)]
pub struct GateSpec {
    pub cons: Vec<ConsSpec>,
    /// additive selector ⇒ trash argument
    pub additive: bool,
    /// number of rows the generator tries to enable it on
    pub placements: usize,
    /// non-empty ⇒ the gate queries a SECOND (complex) selector q used as a mode switch, not as a
    /// multiplicative guard: constraint i is `out_i − (q·G_i + (1−q)·alt_i)`; q is enabled on the
    /// placements whose row has `mode_on(row)`
    #[serde(default)]
    pub alt: Vec<GExpr>,
}

/// value-independent mode of a placement row of a mode-switch gate
pub fn mode_on(row: usize) -> bool {
    (row.wrapping_mul(0x9E37_79B9) >> 4) & 1 == 1
}

#[derive(Clone, Debug, Serialize, Deserialize, PartialEq, Eq, Hash)]
pub enum TableKind {
    /// `cs.lookup` into dedicated table columns
    Table,
    /// `cs.lookup_any` into fixed columns gated by a fixed enable column
    AnyFixed,
    /// `cs.lookup_any` into (first-phase) advice columns gated by a fixed enable column
    AnyAdvice(Vec<usize>),
}

#[derive(Clone, Debug, Serialize, Deserialize, PartialEq, Eq, Hash)]
pub struct LookupSpec {
    /// the table has no all-zero row; disabled rows look up the first table row instead
    /// (input = q·cell + (1−q)·t₀)
    #[serde(default)]
    pub zero_free: bool,
    pub kind: TableKind,
    /// advice (column, rotation) of each input
    pub inputs: Vec<(usize, i32)>,
    pub table_rows: usize,
    pub placements: usize,
}

#[derive(Clone, Debug, Serialize, Deserialize, PartialEq, Eq, Hash)]
pub struct GenSpec {
    pub k: u32,
    /// rows 0..row_limit may be assigned (≤ usable rows; set by the generator after a trial
    /// configure)
    pub row_limit: usize,
    pub advice: Vec<AdvSpec>,
    /// plain fixed columns (coefficients); flag = equality-enabled
    pub fixed_eq: Vec<bool>,
    pub n_instance: usize,
    /// for each challenge: the phase after which it is usable
    pub challenges: Vec<u8>,
    pub gates: Vec<GateSpec>,
    pub lookups: Vec<LookupSpec>,
    pub constants: bool,
    /// number of copy-constraint attempts of each kind
    pub n_copies: usize,
    /// redundant equality constraints between cells that are already tied (same copy class)
    #[serde(default)]
    pub n_redundant_copies: usize,
    /// triangles a=b, b=c, a=c issued as equal(b,c), equal(a,b) [fresh cell on the left], equal(a,c)
    #[serde(default)]
    pub n_triangles: usize,
    pub n_inst_expose: usize,
    pub n_inst_load: usize,
    pub n_const_cells: usize,
    pub n_junk: usize,
    /// number of leading "free" random entries per instance column (readable by gates)
    pub inst_free: usize,
    pub plan_seed: u64,
    /// extra, unqueried fixed column holding `tweak_val` at row 0 (used to derive a verifying key
    /// that differs in one fixed cell only)
    #[serde(default)]
    pub tweak_col: bool,
    #[serde(default)]
    pub tweak_val: u64,
}

impl Default for GenSpec {
    fn default() -> Self {
        GenSpec {
            k: 5,
            row_limit: 0,
            advice: vec![],
            fixed_eq: vec![],
            n_instance: 1,
            challenges: vec![],
            gates: vec![],
            lookups: vec![],
            constants: false,
            n_copies: 0,
            n_redundant_copies: 0,
            n_triangles: 0,
            n_inst_expose: 0,
            n_inst_load: 0,
            n_const_cells: 0,
            n_junk: 0,
            inst_free: 2,
            plan_seed: 0,
            tweak_col: false,
            tweak_val: 0,
        }
    }
}

impl GenSpec {
    pub fn n_phases(&self) -> u8 {
        self.advice.iter().map(|a| a.phase).max().unwrap_or(0) + 1
    }
    pub fn features(&self) -> Vec<String> {
        let mut f = vec![];
        f.push(format!("phases{}", self.n_phases()));
        if self.advice.iter().any(|a| a.unblinded) {
            f.push("unblinded".into());
        }
        if self.gates.iter().any(|g| g.additive) {
            f.push("trash".into());
        }
        if self.gates.iter().any(|g| !g.additive) {
            f.push("gate".into());
        }
        if self.gates.iter().any(|g| !g.alt.is_empty()) {
            f.push("mode_selector".into());
        }
        for l in &self.lookups {
            f.push(match l.kind {
                TableKind::Table => "lookup".into(),
                TableKind::AnyFixed => "lookup_any_fixed".into(),
                TableKind::AnyAdvice(_) => "lookup_any_advice".into(),
            });
        }
        if self.constants && self.n_const_cells > 0 {
            f.push("constants".into());
        }
        if self.n_copies > 0 {
            f.push("copies".into());
        }
        if self.n_inst_expose + self.n_inst_load > 0 {
            f.push("inst_copy".into());
        }
        if !self.challenges.is_empty() {
            f.push("challenge".into());
        }
        if self.gates.iter().any(|g| g.cons.iter().any(|c| !c.g.inst_queries().is_empty())) {
            f.push("inst_query".into());
        }
        let maxdeg = self
            .gates
            .iter()
            .map(|g| {
                g.cons.iter().map(|c| c.g.degree()).chain(g.alt.iter().map(|a| a.degree())).max().unwrap_or(0)
                    + if g.additive { 0 } else { 1 }
                    + if g.alt.is_empty() { 0 } else { 1 }
            })
            .max()
            .unwrap_or(0);
        f.push(format!("deg{maxdeg}"));
        f.sort();
        f.dedup();
        f
    }
}

// ---------------------------------------------------------------------------------------------
// Plan (value-independent)
// ---------------------------------------------------------------------------------------------

pub type Cell = (usize, usize); // (advice column, row)

#[derive(Clone, Debug, PartialEq, Eq)]
pub enum Src {
    /// sampled input (index into the witness stream)
    Rand,
    /// constant from the plan, tied by `assign_advice_from_constant`
    Const(u64),
    /// loaded from instance (column, row) by `assign_advice_from_instance`
    FromInstance(usize, usize),
    /// copy of another advice cell (`constrain_equal`)
    CopyOf(Cell),
    /// same value as another advice cell, no constraint issued by this step
    CopyVal(Cell),
    /// column j of row `table_row` of lookup `lookup`'s table
    TableVal { lookup: usize, table_row: usize, j: usize },
    /// assigned, read by nothing
    Junk,
    /// cell of an advice table (lookup_any into advice)
    TableCell { lookup: usize, table_row: usize, j: usize },
}

#[derive(Clone, Debug, PartialEq, Eq)]
pub enum Step {
    Input { cell: Cell, src: Src },
    Gate { gate: usize, con: usize, row: usize },
    /// `constrain_equal(left, right)` issued at this point of the synthesis
    Equal(Cell, Cell),
}

#[derive(Clone, Debug, PartialEq, Eq)]
pub enum InstSrc {
    Free,
    Expose(Cell),
    /// value loaded into an advice cell
    Load,
}

#[derive(Clone, Debug, Default)]
pub struct Plan {
    pub gate_rows: Vec<Vec<usize>>,
    /// per lookup: rows where the input selector is on
    pub lookup_rows: Vec<Vec<usize>>,
    pub steps: Vec<Step>,
    /// plain fixed cells read by gates: (column,row) -> small value
    pub fixed_vals: BTreeMap<(usize, usize), u64>,
    /// per lookup: table contents [row][j] as small values (row 0 is all zeros)
    pub tables: Vec<Vec<Vec<u64>>>,
    /// per lookup with an any-table: first row of the table block
    pub table_base: Vec<usize>,
    pub inst: Vec<Vec<InstSrc>>,
    /// redundant `constrain_equal` pairs (both cells already in one copy class)
    pub extra_equal: Vec<(Cell, Cell)>,
}

fn rows_ok(row: usize, rots: impl Iterator<Item = i32>, limit: usize) -> bool {
    for r in rots {
        let x = row as i64 + r as i64;
        if x < 0 || x >= limit as i64 {
            return false;
        }
    }
    true
}

fn at(row: usize, rot: i32) -> usize {
    (row as i64 + rot as i64) as usize
}

impl Plan {
    pub fn derive(spec: &GenSpec) -> Plan {
        let mut rng = rng_for(spec.plan_seed, "plan");
        let limit = spec.row_limit;
        let mut plan = Plan::default();
        let mut assigned: BTreeSet<Cell> = BTreeSet::new();
        // instance layout: [free entries][expose / load entries]
        plan.inst = vec![vec![InstSrc::Free; spec.inst_free]; spec.n_instance];

        // --- tables ---------------------------------------------------------------------------
        // any-tables live in a block of rows at the top of the assignable area
        let mut next_table_base = limit;
        for (li, l) in spec.lookups.iter().enumerate() {
            let w = l.inputs.len();
            let mut t = if l.zero_free {
                vec![(0..w).map(|_| rng.gen_range(1..1u64 << 40)).collect()]
            } else {
                vec![vec![0u64; w]]
            };
            for _ in 1..l.table_rows {
                t.push((0..w).map(|_| rng.gen_range(1..1u64 << 40)).collect());
            }
            plan.tables.push(t);
            match &l.kind {
                TableKind::Table => plan.table_base.push(0),
                TableKind::AnyFixed | TableKind::AnyAdvice(_) => {
                    next_table_base = next_table_base.saturating_sub(l.table_rows);
                    plan.table_base.push(next_table_base);
                    if let TableKind::AnyAdvice(cols) = &l.kind {
                        for tr in 0..l.table_rows {
                            for (j, c) in cols.iter().enumerate() {
                                let cell = (*c, next_table_base + tr);
                                assigned.insert(cell);
                                plan.steps.push(Step::Input {
                                    cell,
                                    src: Src::TableCell {
                                        lookup: li,
                                        table_row: tr,
                                        j,
                                    },
                                });
                            }
                        }
                    }
                }
            }
        }
        // rows below `work_limit` are for gates / lookups inputs; any-table blocks sit above
        let work_limit = next_table_base;

        // --- lookup placements -----------------------------------------------------------------
        plan.lookup_rows = vec![vec![]; spec.lookups.len()];
        // --- gate placements -------------------------------------------------------------------
        plan.gate_rows = vec![vec![]; spec.gates.len()];

        // interleave placements of gates and lookups in random order
        let mut todo: Vec<(bool, usize)> = vec![];
        for (gi, g) in spec.gates.iter().enumerate() {
            for _ in 0..g.placements {
                todo.push((true, gi));
            }
        }
        for (li, l) in spec.lookups.iter().enumerate() {
            for _ in 0..l.placements {
                todo.push((false, li));
            }
        }
        todo.shuffle(&mut rng);

        for (is_gate, idx) in todo {
            // candidate row: half of the time among the low rows (instance queries live there)
            let row = if rng.gen_bool(0.5) {
                rng.gen_range(0..(spec.inst_free + 6).min(work_limit.max(1)))
            } else {
                rng.gen_range(0..work_limit.max(1))
            };
            if is_gate {
                let g = &spec.gates[idx];
                if plan.gate_rows[idx].contains(&row) {
                    continue;
                }
                let mut rots: Vec<i32> = vec![];
                let mut inputs: BTreeSet<Cell> = BTreeSet::new();
                let mut ok = true;
                for c in &g.cons {
                    rots.push(c.out.1);
                }
                for e in g.cons.iter().map(|c| &c.g).chain(g.alt.iter()) {
                    rots.extend(e.adv_queries().iter().map(|q| q.1));
                    rots.extend(e.fix_queries().iter().map(|q| q.1));
                    rots.extend(e.inst_queries().iter().map(|q| q.1));
                }
                if !rows_ok(row, rots.iter().copied(), work_limit) {
                    continue;
                }
                // instance queries may only read free entries or padding zeros
                for e in g.cons.iter().map(|c| &c.g).chain(g.alt.iter()) {
                    for (_, rot) in e.inst_queries() {
                        let r = at(row, rot);
                        // only free (assigned) instance entries may be read: the repository's mock
                        // checker deliberately flags gates that read unassigned (padding)
                        // instance cells, like it does for unassigned advice cells
                        if r >= spec.inst_free {
                            ok = false;
                        }
                    }
                }
                let outs: Vec<Cell> = g.cons.iter().map(|c| (c.out.0, at(row, c.out.1))).collect();
                for (i, o) in outs.iter().enumerate() {
                    if assigned.contains(o) || outs[..i].contains(o) {
                        ok = false;
                    }
                }
                if !ok {
                    continue;
                }
                for e in g.cons.iter().map(|c| &c.g).chain(g.alt.iter()) {
                    for (col, rot) in e.adv_queries() {
                        inputs.insert((col, at(row, rot)));
                    }
                }
                if outs.iter().any(|o| inputs.contains(o)) {
                    continue;
                }
                for cell in inputs {
                    if assigned.insert(cell) {
                        plan.steps.push(Step::Input {
                            cell,
                            src: Src::Rand,
                        });
                    }
                }
                for e in g.cons.iter().map(|c| &c.g).chain(g.alt.iter()) {
                    for (col, rot) in e.fix_queries() {
                        plan.fixed_vals
                            .entry((col, at(row, rot)))
                            .or_insert_with(|| rng.gen_range(0..1u64 << 32));
                    }
                }
                for (ci, o) in outs.iter().enumerate() {
                    assigned.insert(*o);
                    plan.steps.push(Step::Gate {
                        gate: idx,
                        con: ci,
                        row,
                    });
                }
                plan.gate_rows[idx].push(row);
            } else {
                let l = &spec.lookups[idx];
                if plan.lookup_rows[idx].contains(&row) {
                    continue;
                }
                if !rows_ok(row, l.inputs.iter().map(|q| q.1), work_limit) {
                    continue;
                }
                let cells: Vec<Cell> = l.inputs.iter().map(|(c, r)| (*c, at(row, *r))).collect();
                let mut distinct = BTreeSet::new();
                if cells.iter().any(|c| assigned.contains(c) || !distinct.insert(*c)) {
                    continue;
                }
                let table_row = rng.gen_range(0..l.table_rows);
                for (j, cell) in cells.iter().enumerate() {
                    assigned.insert(*cell);
                    plan.steps.push(Step::Input {
                        cell: *cell,
                        src: Src::TableVal {
                            lookup: idx,
                            table_row,
                            j,
                        },
                    });
                }
                plan.lookup_rows[idx].push(row);
            }
        }

        // --- copies, constants, instance ties, junk --------------------------------------------
        let eq_cols: Vec<usize> =
            spec.advice.iter().enumerate().filter(|(_, a)| a.equality).map(|(i, _)| i).collect();
        let free_cell = |rng: &mut ChaCha8Rng, assigned: &BTreeSet<Cell>, cols: &[usize]| -> Option<Cell> {
            if cols.is_empty() || work_limit == 0 {
                return None;
            }
            for _ in 0..20 {
                let c = (*cols.choose(rng).unwrap(), rng.gen_range(0..work_limit));
                if !assigned.contains(&c) {
                    return Some(c);
                }
            }
            None
        };
        // adv–adv copies: B := copy of an already assigned cell A, phase(B) ≥ phase(A)
        for _ in 0..spec.n_copies {
            let cands: Vec<Cell> =
                assigned.iter().copied().filter(|c| spec.advice[c.0].equality).collect();
            if cands.is_empty() {
                break;
            }
            let a = *cands.choose(&mut rng).unwrap();
            let cols: Vec<usize> = eq_cols
                .iter()
                .copied()
                .filter(|c| spec.advice[*c].phase >= spec.advice[a.0].phase)
                .collect();
            if let Some(b) = free_cell(&mut rng, &assigned, &cols) {
                assigned.insert(b);
                plan.steps.push(Step::Input {
                    cell: b,
                    src: Src::CopyOf(a),
                });
            }
        }
        // triangles
        for _ in 0..spec.n_triangles {
            let cols: Vec<usize> = eq_cols.clone();
            let (Some(b), Some(c), Some(a)) = (
                free_cell(&mut rng, &assigned, &cols),
                free_cell(&mut rng, &assigned, &cols),
                free_cell(&mut rng, &assigned, &cols),
            ) else {
                break;
            };
            if a == b || b == c || a == c {
                continue;
            }
            // all three in the phase of b or later is required for value propagation
            let pb = spec.advice[b.0].phase;
            if spec.advice[a.0].phase < pb || spec.advice[c.0].phase < pb {
                continue;
            }
            for x in [a, b, c] {
                assigned.insert(x);
            }
            plan.steps.push(Step::Input { cell: b, src: Src::Rand });
            plan.steps.push(Step::Input { cell: c, src: Src::CopyVal(b) });
            plan.steps.push(Step::Equal(b, c));
            plan.steps.push(Step::Input { cell: a, src: Src::CopyVal(b) });
            plan.steps.push(Step::Equal(a, b));
            plan.steps.push(Step::Equal(a, c));
        }
        // redundant equalities inside existing copy classes (chains A←B←C … plus A==C)
        {
            let mut class_of: BTreeMap<Cell, Cell> = BTreeMap::new();
            let mut members: BTreeMap<Cell, Vec<Cell>> = BTreeMap::new();
            for st in &plan.steps {
                if let Step::Input { cell, src: Src::CopyOf(a) } = st {
                    let root = class_of.get(a).copied().unwrap_or(*a);
                    class_of.insert(*a, root);
                    class_of.insert(*cell, root);
                    let m = members.entry(root).or_insert_with(|| vec![root]);
                    if !m.contains(a) {
                        m.push(*a);
                    }
                    m.push(*cell);
                }
            }
            let big: Vec<&Vec<Cell>> = members.values().filter(|m| m.len() >= 2).collect();
            for _ in 0..spec.n_redundant_copies {
                if big.is_empty() {
                    break;
                }
                let m = big.choose(&mut rng).unwrap();
                let a = *m.choose(&mut rng).unwrap();
                let b = *m.choose(&mut rng).unwrap();
                if a != b {
                    plan.extra_equal.push((a, b));
                }
            }
        }
        // constants
        if spec.constants {
            for _ in 0..spec.n_const_cells {
                if let Some(b) = free_cell(&mut rng, &assigned, &eq_cols) {
                    assigned.insert(b);
                    plan.steps.push(Step::Input {
                        cell: b,
                        src: Src::Const(rng.gen_range(0..1000)),
                    });
                }
            }
        }
        // instance → advice loads (first-phase columns only)
        let eq_cols_p0: Vec<usize> =
            eq_cols.iter().copied().filter(|c| spec.advice[*c].phase == 0).collect();
        for _ in 0..spec.n_inst_load {
            if spec.n_instance == 0 {
                break;
            }
            if let Some(b) = free_cell(&mut rng, &assigned, &eq_cols_p0) {
                let ic = rng.gen_range(0..spec.n_instance);
                let ir = plan.inst[ic].len();
                plan.inst[ic].push(InstSrc::Load);
                assigned.insert(b);
                plan.steps.push(Step::Input {
                    cell: b,
                    src: Src::FromInstance(ic, ir),
                });
            }
        }
        // advice → instance exposures (first-phase cells only)
        for _ in 0..spec.n_inst_expose {
            if spec.n_instance == 0 {
                break;
            }
            let cands: Vec<Cell> = assigned
                .iter()
                .copied()
                .filter(|c| spec.advice[c.0].equality && spec.advice[c.0].phase == 0)
                .collect();
            if cands.is_empty() {
                break;
            }
            let a = *cands.choose(&mut rng).unwrap();
            let ic = rng.gen_range(0..spec.n_instance);
            plan.inst[ic].push(InstSrc::Expose(a));
        }
        // junk
        let all_cols: Vec<usize> = (0..spec.advice.len()).collect();
        for _ in 0..spec.n_junk {
            if let Some(b) = free_cell(&mut rng, &assigned, &all_cols) {
                assigned.insert(b);
                plan.steps.push(Step::Input {
                    cell: b,
                    src: Src::Junk,
                });
            }
        }
        plan
    }
}

// ---------------------------------------------------------------------------------------------
// Faults
// ---------------------------------------------------------------------------------------------

#[derive(Clone, Debug, Serialize, Deserialize, PartialEq, Eq, Hash)]
pub enum FaultKind {
    Plus1,
    Zero,
    SwapBelow,
    Random(u64),
}

#[derive(Clone, Debug, Serialize, Deserialize, PartialEq, Eq, Hash)]
pub struct Fault {
    pub col: usize,
    pub row: usize,
    pub kind: FaultKind,
}

fn small<F: PrimeField>(v: u64) -> F {
    F::from(v)
}

fn rand_field<F: PrimeField + FromUniformBytes<64>>(rng: &mut ChaCha8Rng) -> F {
    let mut b = [0u8; 64];
    rng.fill(&mut b[..]);
    F::from_uniform_bytes(&b)
}

fn sample_input<F: PrimeField + FromUniformBytes<64>>(rng: &mut ChaCha8Rng) -> F {
    match rng.gen_range(0..10) {
        0 => F::ZERO,
        1 => F::ONE,
        2 => -F::ONE,
        3 => F::from(rng.gen_range(0..256u64)),
        _ => rand_field(rng),
    }
}

// ---------------------------------------------------------------------------------------------
// Witness: walk the plan
// ---------------------------------------------------------------------------------------------

pub struct Witness<F: PrimeField> {
    pub advice: BTreeMap<Cell, Value<F>>,
    /// instance columns (free + tied entries), as concrete values
    pub instance: Vec<Vec<F>>,
}

fn eval_g<F: PrimeField>(
    g: &GExpr,
    row: usize,
    adv: &BTreeMap<Cell, Value<F>>,
    fix: &BTreeMap<(usize, usize), u64>,
    inst: &[Vec<F>],
    chal: &[Value<F>],
) -> Value<F> {
    match g {
        GExpr::C(c) => Value::known(small::<F>(*c)),
        GExpr::Adv(c, r) => adv.get(&(*c, at(row, *r))).copied().unwrap_or(Value::known(F::ZERO)),
        GExpr::Fix(c, r) => {
            Value::known(small::<F>(fix.get(&(*c, at(row, *r))).copied().unwrap_or(0)))
        }
        GExpr::Inst(c, r) => {
            Value::known(inst[*c].get(at(row, *r)).copied().unwrap_or(F::ZERO))
        }
        GExpr::Chal(i) => chal[*i],
        GExpr::Neg(a) => -eval_g(a, row, adv, fix, inst, chal),
        GExpr::Add(a, b) => eval_g(a, row, adv, fix, inst, chal) + eval_g(b, row, adv, fix, inst, chal),
        GExpr::Mul(a, b) => eval_g(a, row, adv, fix, inst, chal) * eval_g(b, row, adv, fix, inst, chal),
        GExpr::Scale(a, s) => eval_g(a, row, adv, fix, inst, chal) * Value::known(small::<F>(*s)),
    }
}

fn known<F: Copy>(v: &Value<F>) -> Option<F> {
    let mut o = None;
    v.map(|x| o = Some(x));
    o
}

/// Computes the witness for `spec` from `witness_seed`; `chal[i]` may be unknown (then cells
/// that depend on it are unknown). Instance values never depend on challenges.
pub fn compute_witness<F: PrimeField + FromUniformBytes<64>>(
    spec: &GenSpec,
    plan: &Plan,
    witness_seed: u64,
    chal: &[Value<F>],
) -> Witness<F> {
    let mut rng = rng_for(witness_seed, "witness");
    // free instance entries first (gates may read them)
    let mut instance: Vec<Vec<F>> = plan
        .inst
        .iter()
        .map(|col| {
            col.iter()
                .map(|s| match s {
                    InstSrc::Free | InstSrc::Load => sample_input::<F>(&mut rng),
                    InstSrc::Expose(_) => F::ZERO, // filled below
                })
                .collect()
        })
        .collect();
    let mut adv: BTreeMap<Cell, Value<F>> = BTreeMap::new();
    for step in &plan.steps {
        match step {
            Step::Input { cell, src } => {
                let v = match src {
                    Src::Rand | Src::Junk => Value::known(sample_input::<F>(&mut rng)),
                    Src::Const(c) => Value::known(small::<F>(*c)),
                    Src::FromInstance(c, r) => Value::known(instance[*c][*r]),
                    Src::CopyOf(a) | Src::CopyVal(a) => adv.get(a).copied().unwrap_or(Value::known(F::ZERO)),
                    Src::TableVal { lookup, table_row, j } | Src::TableCell { lookup, table_row, j } => {
                        Value::known(small::<F>(plan.tables[*lookup][*table_row][*j]))
                    }
                };
                adv.insert(*cell, v);
            }
            Step::Gate { gate, con, row } => {
                let g = &spec.gates[*gate];
                let c = &g.cons[*con];
                let e = if g.alt.is_empty() || mode_on(*row) { &c.g } else { &g.alt[*con] };
                let v = eval_g(e, *row, &adv, &plan.fixed_vals, &instance, chal);
                adv.insert((c.out.0, at(*row, c.out.1)), v);
            }
            Step::Equal(..) => {}
        }
    }
    for (ic, col) in plan.inst.iter().enumerate() {
        for (ir, s) in col.iter().enumerate() {
            if let InstSrc::Expose(a) = s {
                instance[ic][ir] = adv.get(a).and_then(known).unwrap_or(F::ZERO);
            }
        }
    }
    Witness {
        advice: adv,
        instance,
    }
}

/// Instance vectors of an (unfaulted) witness.
pub fn instance_of<F: PrimeField + FromUniformBytes<64>>(spec: &GenSpec, witness_seed: u64) -> Vec<Vec<F>> {
    let plan = Plan::derive(spec);
    let chal = vec![Value::unknown(); spec.challenges.len()];
    compute_witness::<F>(spec, &plan, witness_seed, &chal).instance
}

// ---------------------------------------------------------------------------------------------
// Circuit
// ---------------------------------------------------------------------------------------------

#[derive(Clone, Debug)]
pub struct GenConfig {
    pub spec: GenSpec,
    pub advice: Vec<Column<Advice>>,
    pub fixed: Vec<Column<Fixed>>,
    pub instance: Vec<Column<Instance>>,
    pub challenges: Vec<Challenge>,
    pub gate_sel: Vec<Selector>,
    pub gate_mode_sel: Vec<Option<Selector>>,
    pub lookup_sel: Vec<Selector>,
    pub lookup_tables: Vec<Vec<TableColumn>>,
    /// for any-tables: enable column + (for AnyFixed) the fixed table columns
    pub any_enable: Vec<Option<Column<Fixed>>>,
    pub any_fixed_cols: Vec<Vec<Column<Fixed>>>,
    pub constant_col: Option<Column<Fixed>>,
    pub tweak_col: Option<Column<Fixed>>,
}

#[derive(Clone, Debug)]
pub struct GenCircuit {
    pub spec: GenSpec,
    /// `None` = unknown witness (key generation)
    pub witness_seed: Option<u64>,
    pub faults: Vec<Fault>,
}

impl GenCircuit {
    pub fn new(spec: GenSpec, witness_seed: u64) -> Self {
        GenCircuit {
            spec,
            witness_seed: Some(witness_seed),
            faults: vec![],
        }
    }
}

fn to_expr<F: PrimeField>(
    g: &GExpr,
    meta: &mut midnight_proofs::plonk::VirtualCells<'_, F>,
    cfg: &GenConfig,
) -> Expression<F> {
    match g {
        GExpr::C(c) => Expression::Constant(small::<F>(*c)),
        GExpr::Adv(c, r) => meta.query_advice(cfg.advice[*c], Rotation(*r)),
        GExpr::Fix(c, r) => meta.query_fixed(cfg.fixed[*c], Rotation(*r)),
        GExpr::Inst(c, r) => meta.query_instance(cfg.instance[*c], Rotation(*r)),
        GExpr::Chal(i) => meta.query_challenge(cfg.challenges[*i]),
        GExpr::Neg(a) => -to_expr(a, meta, cfg),
        GExpr::Add(a, b) => to_expr(a, meta, cfg) + to_expr(b, meta, cfg),
        GExpr::Mul(a, b) => to_expr(a, meta, cfg) * to_expr(b, meta, cfg),
        GExpr::Scale(a, s) => to_expr(a, meta, cfg) * small::<F>(*s),
    }
}

impl<F: PrimeField + FromUniformBytes<64>> Circuit<F> for GenCircuit {
    type Config = GenConfig;
    type FloorPlanner = SimpleFloorPlanner;
    type Params = GenSpec;

    fn without_witnesses(&self) -> Self {
        GenCircuit {
            spec: self.spec.clone(),
            witness_seed: None,
            faults: vec![],
        }
    }

    fn params(&self) -> Self::Params {
        self.spec.clone()
    }

    fn configure(_: &mut ConstraintSystem<F>) -> Self::Config {
        unreachable!("GenCircuit is configured through configure_with_params")
    }

    fn configure_with_params(meta: &mut ConstraintSystem<F>, spec: GenSpec) -> GenConfig {
        let advice: Vec<Column<Advice>> = spec
            .advice
            .iter()
            .map(|a| {
                let c = match (a.phase, a.unblinded) {
                    (0, false) => meta.advice_column_in(FirstPhase),
                    (1, false) => meta.advice_column_in(SecondPhase),
                    (_, false) => meta.advice_column_in(ThirdPhase),
                    (0, true) => meta.unblinded_advice_column_in(FirstPhase),
                    (1, true) => meta.unblinded_advice_column_in(SecondPhase),
                    (_, true) => meta.unblinded_advice_column_in(ThirdPhase),
                };
                if a.equality {
                    meta.enable_equality(c);
                }
                c
            })
            .collect();
        let fixed: Vec<Column<Fixed>> = spec
            .fixed_eq
            .iter()
            .map(|eq| {
                let c = meta.fixed_column();
                if *eq {
                    meta.enable_equality(c);
                }
                c
            })
            .collect();
        let instance: Vec<Column<Instance>> = (0..spec.n_instance)
            .map(|_| {
                let c = meta.instance_column();
                meta.enable_equality(c);
                c
            })
            .collect();
        let challenges: Vec<Challenge> = spec
            .challenges
            .iter()
            .map(|p| match p {
                0 => meta.challenge_usable_after(FirstPhase),
                1 => meta.challenge_usable_after(SecondPhase),
                _ => meta.challenge_usable_after(ThirdPhase),
            })
            .collect();
        let constant_col = if spec.constants {
            let c = meta.fixed_column();
            meta.enable_constant(c);
            Some(c)
        } else {
            None
        };
        let mut cfg = GenConfig {
            spec: spec.clone(),
            advice,
            fixed,
            instance,
            challenges,
            gate_sel: vec![],
            gate_mode_sel: vec![],
            lookup_sel: vec![],
            lookup_tables: vec![],
            any_enable: vec![],
            any_fixed_cols: vec![],
            constant_col,
            tweak_col: if spec.tweak_col { Some(meta.fixed_column()) } else { None },
        };
        for g in &spec.gates {
            // additive selectors must be complex (the library asserts it when converting selectors)
            let sel = if g.additive { meta.complex_selector() } else { meta.selector() };
            cfg.gate_sel.push(sel);
            let mode_sel = if g.alt.is_empty() { None } else { Some(meta.complex_selector()) };
            cfg.gate_mode_sel.push(mode_sel);
            let cfg_ref = cfg.clone();
            let g2 = g.clone();
            meta.create_gate("gen", move |m| {
                let cons: Vec<Expression<F>> = g2
                    .cons
                    .iter()
                    .enumerate()
                    .map(|(ci, c)| {
                        let out = m.query_advice(cfg_ref.advice[c.out.0], Rotation(c.out.1));
                        match mode_sel {
                            None => out - to_expr(&c.g, m, &cfg_ref),
                            Some(qs) => {
                                let q = m.query_selector(qs);
                                let one = Expression::Constant(F::ONE);
                                out - (q.clone() * to_expr(&c.g, m, &cfg_ref) + (one - q) * to_expr(&g2.alt[ci], m, &cfg_ref))
                            }
                        }
                    })
                    .collect();
                if g2.additive {
                    Constraints::with_additive_selector(sel, cons)
                } else {
                    Constraints::with_selector(sel, cons)
                }
            });
        }
        for l in &spec.lookups {
            let sel = meta.complex_selector();
            cfg.lookup_sel.push(sel);
            match &l.kind {
                TableKind::Table => {
                    let cols: Vec<TableColumn> =
                        (0..l.inputs.len()).map(|_| meta.lookup_table_column()).collect();
                    let advice = cfg.advice.clone();
                    let inputs = l.inputs.clone();
                    let cols2 = cols.clone();
                    // for zero-free tables the disabled rows look up the first table row
                    let defaults: Vec<u64> = if l.zero_free {
                        Plan::derive(&spec).tables[cfg.lookup_sel.len() - 1][0].clone()
                    } else {
                        vec![0; l.inputs.len()]
                    };
                    meta.lookup("gen-lookup", move |m| {
                        let q = m.query_selector(sel);
                        inputs
                            .iter()
                            .zip(cols2.iter())
                            .zip(defaults.iter())
                            .map(|(((c, r), t), d)| {
                                let one_minus_q = Expression::Constant(F::ONE) - q.clone();
                                (
                                    q.clone() * m.query_advice(advice[*c], Rotation(*r))
                                        + one_minus_q * Expression::Constant(small::<F>(*d)),
                                    *t,
                                )
                            })
                            .collect()
                    });
                    cfg.lookup_tables.push(cols);
                    cfg.any_enable.push(None);
                    cfg.any_fixed_cols.push(vec![]);
                }
                TableKind::AnyFixed => {
                    let en = meta.fixed_column();
                    let tcols: Vec<Column<Fixed>> =
                        (0..l.inputs.len()).map(|_| meta.fixed_column()).collect();
                    let advice = cfg.advice.clone();
                    let inputs = l.inputs.clone();
                    let tcols2 = tcols.clone();
                    meta.lookup_any("gen-lookup-any-fixed", move |m| {
                        let q = m.query_selector(sel);
                        let e = m.query_fixed(en, Rotation::cur());
                        inputs
                            .iter()
                            .zip(tcols2.iter())
                            .map(|((c, r), t)| {
                                (
                                    q.clone() * m.query_advice(advice[*c], Rotation(*r)),
                                    e.clone() * m.query_fixed(*t, Rotation::cur()),
                                )
                            })
                            .collect()
                    });
                    cfg.lookup_tables.push(vec![]);
                    cfg.any_enable.push(Some(en));
                    cfg.any_fixed_cols.push(tcols);
                }
                TableKind::AnyAdvice(acols) => {
                    let en = meta.fixed_column();
                    let advice = cfg.advice.clone();
                    let inputs = l.inputs.clone();
                    let acols2 = acols.clone();
                    meta.lookup_any("gen-lookup-any-advice", move |m| {
                        let q = m.query_selector(sel);
                        let e = m.query_fixed(en, Rotation::cur());
                        inputs
                            .iter()
                            .zip(acols2.iter())
                            .map(|((c, r), t)| {
                                (
                                    q.clone() * m.query_advice(advice[*c], Rotation(*r)),
                                    e.clone() * m.query_advice(advice[*t], Rotation::cur()),
                                )
                            })
                            .collect()
                    });
                    cfg.lookup_tables.push(vec![]);
                    cfg.any_enable.push(Some(en));
                    cfg.any_fixed_cols.push(vec![]);
                }
            }
        }
        cfg
    }

    fn synthesize(&self, cfg: GenConfig, mut layouter: impl Layouter<F>) -> Result<(), Error> {
        let spec = &cfg.spec;
        let plan = Plan::derive(spec);
        let chal: Vec<Value<F>> = cfg.challenges.iter().map(|c| layouter.get_challenge(*c)).collect();
        let witness: Option<Witness<F>> =
            self.witness_seed.map(|s| compute_witness::<F>(spec, &plan, s, &chal));

        // fixed tables of `lookup`
        for (li, l) in spec.lookups.iter().enumerate() {
            if let TableKind::Table = l.kind {
                let cols = cfg.lookup_tables[li].clone();
                let table = plan.tables[li].clone();
                layouter.assign_table(
                    || "gen-table",
                    |mut t| {
                        for (r, row) in table.iter().enumerate() {
                            for (j, v) in row.iter().enumerate() {
                                t.assign_cell(|| "t", cols[j], r, || Value::known(small::<F>(*v)))?;
                            }
                        }
                        Ok(())
                    },
                )?;
            }
        }

        // apply faults to the advice values
        let mut values: BTreeMap<Cell, Value<F>> = match &witness {
            Some(w) => w.advice.clone(),
            None => BTreeMap::new(),
        };
        if witness.is_some() {
            for f in &self.faults {
                let cell = (f.col, f.row);
                let old = values.get(&cell).copied();
                let Some(old) = old else { continue };
                match &f.kind {
                    FaultKind::Plus1 => {
                        values.insert(cell, old + Value::known(F::ONE));
                    }
                    FaultKind::Zero => {
                        values.insert(cell, Value::known(F::ZERO));
                    }
                    FaultKind::Random(s) => {
                        let mut r = rng_for(*s, "fault");
                        values.insert(cell, Value::known(rand_field::<F>(&mut r)));
                    }
                    FaultKind::SwapBelow => {
                        let below = values.range((f.col, f.row + 1)..(f.col + 1, 0)).next().map(|(k, v)| (*k, *v));
                        match below {
                            Some((bc, bv)) => {
                                values.insert(cell, bv);
                                values.insert(bc, old);
                            }
                            None => {
                                values.insert(cell, old + Value::known(F::ONE));
                            }
                        }
                    }
                }
            }
        }

        let known_witness = witness.is_some();
        let no_faults = self.faults.is_empty();
        layouter.assign_region(
            || "gen",
            |mut region| {
                let mut cells: BTreeMap<Cell, midnight_proofs::circuit::Cell> = BTreeMap::new();
                let mut inst_ties: Vec<(midnight_proofs::circuit::Cell, usize, usize)> = vec![];
                if let Some(tc) = cfg.tweak_col {
                    region.assign_fixed(|| "tweak", tc, 0, || Value::known(small::<F>(spec.tweak_val)))?;
                }
                // plain fixed values
                for ((c, r), v) in &plan.fixed_vals {
                    region.assign_fixed(|| "f", cfg.fixed[*c], *r, || Value::known(small::<F>(*v)))?;
                }
                // any-tables
                for (li, l) in spec.lookups.iter().enumerate() {
                    match &l.kind {
                        TableKind::Table => {}
                        TableKind::AnyFixed => {
                            let base = plan.table_base[li];
                            for (tr, row) in plan.tables[li].iter().enumerate() {
                                region.assign_fixed(
                                    || "en",
                                    cfg.any_enable[li].unwrap(),
                                    base + tr,
                                    || Value::known(F::ONE),
                                )?;
                                for (j, v) in row.iter().enumerate() {
                                    region.assign_fixed(
                                        || "tf",
                                        cfg.any_fixed_cols[li][j],
                                        base + tr,
                                        || Value::known(small::<F>(*v)),
                                    )?;
                                }
                            }
                        }
                        TableKind::AnyAdvice(_) => {
                            let base = plan.table_base[li];
                            for tr in 0..plan.tables[li].len() {
                                region.assign_fixed(
                                    || "en",
                                    cfg.any_enable[li].unwrap(),
                                    base + tr,
                                    || Value::known(F::ONE),
                                )?;
                            }
                        }
                    }
                }
                // selectors
                for (gi, rows) in plan.gate_rows.iter().enumerate() {
                    for r in rows {
                        cfg.gate_sel[gi].enable(&mut region, *r)?;
                        if let Some(q) = cfg.gate_mode_sel[gi] {
                            if mode_on(*r) {
                                q.enable(&mut region, *r)?;
                            }
                        }
                    }
                }
                for (li, rows) in plan.lookup_rows.iter().enumerate() {
                    for r in rows {
                        cfg.lookup_sel[li].enable(&mut region, *r)?;
                    }
                }
                // advice cells in plan order
                let val = |cell: &Cell| -> Value<F> {
                    if known_witness {
                        values.get(cell).copied().unwrap_or(Value::known(F::ZERO))
                    } else {
                        Value::unknown()
                    }
                };
                for step in &plan.steps {
                    match step {
                        Step::Input { cell, src } => {
                            let col = cfg.advice[cell.0];
                            let ac = match src {
                                Src::Const(c) => {
                                    // the table value may be faulted; the constant tie is structural
                                    let ac = region.assign_advice(|| "c", col, cell.1, || val(cell))?;
                                    region.constrain_constant(ac.cell(), small::<F>(*c))?;
                                    ac.cell()
                                }
                                Src::FromInstance(ic, ir) => {
                                    if no_faults {
                                        region
                                            .assign_advice_from_instance(
                                                || "i",
                                                cfg.instance[*ic],
                                                *ir,
                                                col,
                                                cell.1,
                                            )?
                                            .cell()
                                    } else {
                                        // same tie, but the assigned value may be faulted
                                        let ac = region.assign_advice(|| "i", col, cell.1, || val(cell))?;
                                        inst_ties.push((ac.cell(), *ic, *ir));
                                        ac.cell()
                                    }
                                }
                                Src::CopyOf(a) => {
                                    let ac = region.assign_advice(|| "cp", col, cell.1, || val(cell))?;
                                    let src_cell = cells.get(a).copied();
                                    if let Some(sc) = src_cell {
                                        // both argument orders occur (the union-find of the
                                        // permutation assembly treats them differently)
                                        if cell.1 % 2 == 0 {
                                            region.constrain_equal(ac.cell(), sc)?;
                                        } else {
                                            region.constrain_equal(sc, ac.cell())?;
                                        }
                                    }
                                    ac.cell()
                                }
                                _ => region.assign_advice(|| "a", col, cell.1, || val(cell))?.cell(),
                            };
                            cells.insert(*cell, ac);
                        }
                        Step::Gate { gate, con, row } => {
                            let c = &spec.gates[*gate].cons[*con];
                            let cell = (c.out.0, at(*row, c.out.1));
                            let ac = region.assign_advice(|| "o", cfg.advice[cell.0], cell.1, || val(&cell))?;
                            cells.insert(cell, ac.cell());
                        }
                        Step::Equal(l, r) => {
                            if let (Some(cl), Some(cr)) = (cells.get(l), cells.get(r)) {
                                region.constrain_equal(*cl, *cr)?;
                            }
                        }
                    }
                }
                for (a, b) in &plan.extra_equal {
                    if let (Some(ca), Some(cb)) = (cells.get(a), cells.get(b)) {
                        region.constrain_equal(*ca, *cb)?;
                    }
                }
                Ok((cells, inst_ties))
            },
        )
        .and_then(|(cells, inst_ties)| {
            for (c, ic, ir) in inst_ties {
                layouter.constrain_instance(c, cfg.instance[ic], ir)?;
            }
            for (ic, col) in plan.inst.iter().enumerate() {
                for (ir, s) in col.iter().enumerate() {
                    if let InstSrc::Expose(a) = s {
                        if let Some(c) = cells.get(a) {
                            layouter.constrain_instance(*c, cfg.instance[ic], ir)?;
                        }
                    }
                }
            }
            Ok(())
        })
    }
}

// ---------------------------------------------------------------------------------------------
// Random spec generation
// ---------------------------------------------------------------------------------------------

/// Knobs for the spec sampler (stratified by the caller).
#[derive(Clone, Debug)]
pub struct GenKnobs {
    pub n_phases: u8,
    pub n_gates: usize,
    pub n_trash: usize,
    pub n_lookups: usize,
    pub max_degree: usize,
    pub max_rot: i32,
    pub unblinded: bool,
    pub constants: bool,
    pub n_instance: usize,
    pub inst_queries: bool,
    pub copies: bool,
    pub k_extra: u32,
    pub multi_cons: bool,
}

impl GenKnobs {
    pub fn sample(rng: &mut ChaCha8Rng) -> GenKnobs {
        GenKnobs {
            n_phases: *[1u8, 1, 1, 2, 2, 3].choose(rng).unwrap(),
            n_gates: rng.gen_range(0..=5),
            n_trash: *[0usize, 0, 1, 2].choose(rng).unwrap(),
            n_lookups: *[0usize, 0, 1, 2, 3].choose(rng).unwrap(),
            max_degree: rng.gen_range(2..=6),
            max_rot: rng.gen_range(0..=3),
            unblinded: rng.gen_bool(0.3),
            constants: rng.gen_bool(0.5),
            n_instance: rng.gen_range(1..=3),
            inst_queries: rng.gen_bool(0.4),
            copies: rng.gen_bool(0.8),
            k_extra: *[0u32, 0, 1, 2].choose(rng).unwrap(),
            multi_cons: rng.gen_bool(0.3),
        }
    }
}

struct ExprCtx<'a> {
    adv_cols: &'a [usize],
    n_fixed: usize,
    inst_cols: usize,
    chals: &'a [usize],
    max_rot: i32,
    forbidden: &'a BTreeSet<(usize, i32)>,
}

fn gen_leaf(rng: &mut ChaCha8Rng, cx: &ExprCtx) -> GExpr {
    for _ in 0..8 {
        let kind = rng.gen_range(0..10);
        let rot = if cx.max_rot == 0 { 0 } else { rng.gen_range(-cx.max_rot..=cx.max_rot) };
        match kind {
            0..=5 if !cx.adv_cols.is_empty() => {
                let c = *cx.adv_cols.choose(rng).unwrap();
                if !cx.forbidden.contains(&(c, rot)) {
                    return GExpr::Adv(c, rot);
                }
            }
            6 | 7 if cx.n_fixed > 0 => return GExpr::Fix(rng.gen_range(0..cx.n_fixed), rot),
            8 if cx.inst_cols > 0 => return GExpr::Inst(rng.gen_range(0..cx.inst_cols), rot),
            9 if !cx.chals.is_empty() => return GExpr::Chal(*cx.chals.choose(rng).unwrap()),
            _ => {}
        }
    }
    GExpr::C(rng.gen_range(1..100))
}

fn gen_expr(rng: &mut ChaCha8Rng, cx: &ExprCtx, degree: usize, depth: usize) -> GExpr {
    if degree == 0 {
        return if !cx.chals.is_empty() && rng.gen_bool(0.3) {
            GExpr::Chal(*cx.chals.choose(rng).unwrap())
        } else {
            GExpr::C(rng.gen_range(0..1000))
        };
    }
    if depth == 0 || (degree == 1 && rng.gen_bool(0.6)) {
        return gen_leaf(rng, cx);
    }
    match rng.gen_range(0..10) {
        0..=3 if degree >= 2 => {
            let a = rng.gen_range(1..degree);
            GExpr::Mul(
                Box::new(gen_expr(rng, cx, a, depth - 1)),
                Box::new(gen_expr(rng, cx, degree - a, depth - 1)),
            )
        }
        0..=6 => {
            let d2 = rng.gen_range(0..=degree);
            GExpr::Add(
                Box::new(gen_expr(rng, cx, degree, depth - 1)),
                Box::new(gen_expr(rng, cx, d2, depth - 1)),
            )
        }
        7 => GExpr::Neg(Box::new(gen_expr(rng, cx, degree, depth - 1))),
        // (scale factor 0 now and then: a summand that is identically zero must change nothing)
        8 => GExpr::Scale(Box::new(gen_expr(rng, cx, degree, depth - 1)), if rng.gen_bool(0.15) { 0 } else { rng.gen_range(2..50) }),
        _ => gen_leaf(rng, cx),
    }
}

/// Samples a spec. Returns `None` when the sampled structure cannot be laid out for k ≤ `k_max`.
pub fn gen_spec<F: PrimeField + FromUniformBytes<64>>(
    rng: &mut ChaCha8Rng,
    knobs: &GenKnobs,
    k_max: u32,
) -> Option<GenSpec> {
    let mut spec = GenSpec {
        plan_seed: rng.gen(),
        ..GenSpec::default()
    };
    // columns: at least 2 per phase
    for p in 0..knobs.n_phases {
        let n = rng.gen_range(2..=4);
        for i in 0..n {
            spec.advice.push(AdvSpec {
                phase: p,
                unblinded: knobs.unblinded && rng.gen_bool(0.3),
                equality: knobs.copies && (i == 0 || rng.gen_bool(0.6)),
            });
        }
    }
    let n_fixed = rng.gen_range(0..=2);
    spec.fixed_eq = (0..n_fixed).map(|_| rng.gen_bool(0.3)).collect();
    spec.n_instance = knobs.n_instance;
    // challenges: usable after phase p, for p < n_phases - 1 (so that a later phase can use them);
    // sometimes also one after the last phase (only usable in gates)
    if knobs.n_phases > 1 {
        let nch = rng.gen_range(1..=3);
        for _ in 0..nch {
            spec.challenges.push(rng.gen_range(0..knobs.n_phases - 1));
        }
    }
    spec.constants = knobs.constants;

    let cols_by_phase = |p: u8, spec: &GenSpec| -> Vec<usize> {
        spec.advice.iter().enumerate().filter(|(_, a)| a.phase <= p).map(|(i, _)| i).collect()
    };
    let mut mk_gate = |rng: &mut ChaCha8Rng, spec: &GenSpec, additive: bool| -> GateSpec {
        let ncons = if knobs.multi_cons { rng.gen_range(1..=3) } else { 1 };
        let mut outs: BTreeSet<(usize, i32)> = BTreeSet::new();
        let mut cons_out = vec![];
        for _ in 0..ncons {
            for _ in 0..10 {
                let oc = rng.gen_range(0..spec.advice.len());
                let or = if knobs.max_rot == 0 { 0 } else { rng.gen_range(-knobs.max_rot..=knobs.max_rot) };
                if outs.insert((oc, or)) {
                    cons_out.push((oc, or));
                    break;
                }
            }
        }
        // a third of the ordinary gates carry a second selector used as a mode switch
        let with_mode = !additive && knobs.max_degree >= 4 && rng.gen_bool(0.35);
        let mut alt: Vec<GExpr> = vec![];
        let cons = cons_out
            .iter()
            .map(|(oc, or)| {
                let p = spec.advice[*oc].phase;
                let adv_cols = cols_by_phase(p, spec);
                let chals: Vec<usize> =
                    spec.challenges.iter().enumerate().filter(|(_, cp)| **cp < p).map(|(i, _)| i).collect();
                let cx = ExprCtx {
                    adv_cols: &adv_cols,
                    n_fixed: spec.fixed_eq.len(),
                    inst_cols: if knobs.inst_queries { spec.n_instance } else { 0 },
                    chals: &chals,
                    max_rot: knobs.max_rot,
                    forbidden: &outs,
                };
                let budget = if additive { knobs.max_degree.min(5) } else { knobs.max_degree - 1 - usize::from(with_mode) };
                let deg = rng.gen_range(1..=budget.max(1));
                let g = gen_expr(rng, &cx, deg, 4);
                if with_mode {
                    let deg = rng.gen_range(1..=budget.max(1));
                    alt.push(gen_expr(rng, &cx, deg, 3));
                }
                ConsSpec { out: (*oc, *or), g }
            })
            .collect();
        GateSpec {
            cons,
            additive,
            placements: rng.gen_range(1..=6),
            alt,
        }
    };
    for _ in 0..knobs.n_gates {
        let g = mk_gate(rng, &spec, false);
        spec.gates.push(g);
    }
    for _ in 0..knobs.n_trash {
        let g = mk_gate(rng, &spec, true);
        spec.gates.push(g);
    }
    for _ in 0..knobs.n_lookups {
        let max_pairs = spec.advice.len() * (2 * knobs.max_rot as usize + 1);
        let w = rng.gen_range(1..=3usize).min(max_pairs);
        let p0: Vec<usize> = cols_by_phase(0, &spec);
        let kind = match rng.gen_range(0..3) {
            0 => TableKind::Table,
            1 => TableKind::AnyFixed,
            _ => {
                if p0.len() >= w {
                    let mut c = p0.clone();
                    c.shuffle(rng);
                    TableKind::AnyAdvice(c[..w].to_vec())
                } else {
                    TableKind::AnyFixed
                }
            }
        };
        let mut inputs = vec![];
        let mut seen = BTreeSet::new();
        while inputs.len() < w {
            let c = rng.gen_range(0..spec.advice.len());
            let r = if knobs.max_rot == 0 { 0 } else { rng.gen_range(-knobs.max_rot..=knobs.max_rot) };
            if seen.insert((c, r)) {
                inputs.push((c, r));
            }
        }
        spec.lookups.push(LookupSpec {
            zero_free: matches!(kind, TableKind::Table) && rng.gen_bool(0.5),
            kind,
            inputs,
            table_rows: rng.gen_range(2..=6),
            placements: rng.gen_range(1..=5),
        });
    }
    if knobs.copies {
        spec.n_copies = rng.gen_range(1..=8);
        spec.n_redundant_copies = rng.gen_range(0..=4);
        spec.n_triangles = rng.gen_range(0..=2);
        spec.n_inst_expose = rng.gen_range(0..=3);
        spec.n_inst_load = rng.gen_range(0..=3);
        spec.n_const_cells = if knobs.constants { rng.gen_range(1..=3) } else { 0 };
    }
    spec.n_junk = rng.gen_range(0..=4);
    spec.inst_free = if knobs.inst_queries { rng.gen_range(4..=10) } else { rng.gen_range(0..=4) };

    // trial configure: blinding factors / minimum rows
    let mut cs = ConstraintSystem::<F>::default();
    let _ = <GenCircuit as Circuit<F>>::configure_with_params(&mut cs, spec.clone());
    let min_rows = cs.minimum_rows();
    let table_rows: usize = spec
        .lookups
        .iter()
        .filter(|l| !matches!(l.kind, TableKind::Table))
        .map(|l| l.table_rows)
        .sum();
    let needed = min_rows + table_rows + 8 + spec.inst_free + spec.n_inst_expose + spec.n_inst_load;
    let mut k = 4;
    while (1usize << k) < needed {
        k += 1;
    }
    k += knobs.k_extra;
    if k > k_max {
        return None;
    }
    spec.k = k;
    spec.row_limit = (1usize << k) - (cs.blinding_factors() + 1);
    Some(spec)
}
