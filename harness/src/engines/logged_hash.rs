//! engine: logged_hash (see DESIGN.md §4)
