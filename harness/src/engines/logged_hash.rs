//! E2 — transcript event monitor.
//!
//! `Logged<H>` implements the repository's `TranscriptHash` by delegation to `H` and appends an
//! `Absorb` / `Squeeze` event to a thread-local log. `Hashable<Logged<H>>` / `Sampleable<Logged<H>>`
//! are implemented for the BLS12-381 commitment and scalar types by delegation (orphan rule: the
//! hash type is local). Because `create_proof`, `prepare`, `batch_verify` are generic in the hash,
//! the real code runs unmodified and the log is taken at a trait boundary.

use std::{cell::RefCell, io, io::Read, marker::PhantomData};

use midnight_circuits::hash::poseidon::PoseidonState;
use midnight_curves::{Fq, G1Projective};
use midnight_proofs::transcript::{Hashable, Sampleable, TranscriptHash};

/// Byte rendering of hash inputs/outputs so that logs of different hashes are comparable.
pub trait Bytesable {
    fn bytes(&self) -> Vec<u8>;
}

impl Bytesable for Vec<u8> {
    fn bytes(&self) -> Vec<u8> {
        self.clone()
    }
}

impl Bytesable for Vec<Fq> {
    fn bytes(&self) -> Vec<u8> {
        self.iter().flat_map(|f| f.to_bytes_le()).collect()
    }
}

impl Bytesable for Fq {
    fn bytes(&self) -> Vec<u8> {
        self.to_bytes_le().to_vec()
    }
}

impl Bytesable for [u8; 64] {
    fn bytes(&self) -> Vec<u8> {
        self.to_vec()
    }
}

#[derive(Clone, Debug, PartialEq, Eq, Hash)]
pub enum TEvent {
    Init,
    Absorb(Vec<u8>),
    Squeeze(Vec<u8>),
    /// bytes consumed from the proof buffer by a `Hashable::read` (kind: 'P' point, 'S' scalar)
    Read(char, usize),
}

impl TEvent {
    pub fn describe(&self) -> String {
        match self {
            TEvent::Init => "init".into(),
            TEvent::Absorb(b) => format!("absorb[{}] {}", b.len(), hex::encode(&b[..b.len().min(24)])),
            TEvent::Squeeze(b) => format!("squeeze {}", hex::encode(&b[..b.len().min(24)])),
            TEvent::Read(k, n) => format!("read {k} {n} bytes"),
        }
    }
}

thread_local! {
    static LOG: RefCell<Vec<TEvent>> = const { RefCell::new(Vec::new()) };
    static ENABLED: RefCell<bool> = const { RefCell::new(false) };
}

/// Clears the log of this thread and starts recording.
pub fn start_log() {
    LOG.with(|l| l.borrow_mut().clear());
    ENABLED.with(|e| *e.borrow_mut() = true);
}

/// Stops recording and returns the events recorded on this thread.
pub fn take_log() -> Vec<TEvent> {
    ENABLED.with(|e| *e.borrow_mut() = false);
    LOG.with(|l| std::mem::take(&mut *l.borrow_mut()))
}

fn push(e: TEvent) {
    if ENABLED.with(|e| *e.borrow()) {
        LOG.with(|l| l.borrow_mut().push(e));
    }
}

#[derive(Clone, Debug)]
pub struct Logged<H: TranscriptHash>(pub H, PhantomData<H>);

impl<H: TranscriptHash> TranscriptHash for Logged<H>
where
    H::Input: Bytesable,
    H::Output: Bytesable,
{
    type Input = H::Input;
    type Output = H::Output;

    fn init() -> Self {
        push(TEvent::Init);
        Logged(H::init(), PhantomData)
    }

    fn absorb(&mut self, input: &Self::Input) {
        push(TEvent::Absorb(input.bytes()));
        self.0.absorb(input)
    }

    fn squeeze(&mut self) -> Self::Output {
        let out = self.0.squeeze();
        push(TEvent::Squeeze(out.bytes()));
        out
    }
}

pub type LBlake = Logged<blake2b_simd::State>;
pub type LPoseidon = Logged<PoseidonState<Fq>>;

struct CountingReader<'a, R: Read> {
    inner: &'a mut R,
    n: usize,
}

impl<R: Read> Read for CountingReader<'_, R> {
    fn read(&mut self, buf: &mut [u8]) -> io::Result<usize> {
        let k = self.inner.read(buf)?;
        self.n += k;
        Ok(k)
    }
}

macro_rules! delegate {
    ($hash:ty, $inner:ty) => {
        impl Hashable<$hash> for G1Projective {
            fn to_input(&self) -> <$hash as TranscriptHash>::Input {
                <G1Projective as Hashable<$inner>>::to_input(self)
            }
            fn to_bytes(&self) -> Vec<u8> {
                <G1Projective as Hashable<$inner>>::to_bytes(self)
            }
            fn read(buffer: &mut impl Read) -> io::Result<Self> {
                let mut cr = CountingReader {
                    inner: buffer,
                    n: 0,
                };
                let r = <G1Projective as Hashable<$inner>>::read(&mut cr);
                push(TEvent::Read('P', cr.n));
                r
            }
        }
        impl Hashable<$hash> for Fq {
            fn to_input(&self) -> <$hash as TranscriptHash>::Input {
                <Fq as Hashable<$inner>>::to_input(self)
            }
            fn to_bytes(&self) -> Vec<u8> {
                <Fq as Hashable<$inner>>::to_bytes(self)
            }
            fn read(buffer: &mut impl Read) -> io::Result<Self> {
                let mut cr = CountingReader {
                    inner: buffer,
                    n: 0,
                };
                let r = <Fq as Hashable<$inner>>::read(&mut cr);
                push(TEvent::Read('S', cr.n));
                r
            }
        }
        impl Sampleable<$hash> for Fq {
            fn sample(out: <$hash as TranscriptHash>::Output) -> Self {
                <Fq as Sampleable<$inner>>::sample(out)
            }
        }
    };
}

delegate!(LBlake, blake2b_simd::State);
delegate!(LPoseidon, PoseidonState<Fq>);

/// Layout of a proof as observed from the verifier's reads: `(kind, offset, len)` per element.
pub fn layout_from_log(log: &[TEvent]) -> Vec<(char, usize, usize)> {
    let mut off = 0usize;
    let mut v = vec![];
    for e in log {
        if let TEvent::Read(k, n) = e {
            v.push((*k, off, *n));
            off += n;
        }
    }
    v
}

/// Strips `Read` and `Init` events (the prover has none of the former) for prover/verifier
/// comparison.
pub fn hash_events(log: &[TEvent]) -> Vec<TEvent> {
    log.iter().filter(|e| matches!(e, TEvent::Absorb(_) | TEvent::Squeeze(_))).cloned().collect()
}

/// First index at which two event sequences differ.
pub fn first_divergence(a: &[TEvent], b: &[TEvent]) -> Option<(usize, String, String)> {
    let n = a.len().max(b.len());
    for i in 0..n {
        let ea = a.get(i);
        let eb = b.get(i);
        if ea != eb {
            return Some((
                i,
                ea.map(|e| e.describe()).unwrap_or_else(|| "<end>".into()),
                eb.map(|e| e.describe()).unwrap_or_else(|| "<end>".into()),
            ));
        }
    }
    None
}

// ---------------------------------------------------------------------------------------------
// Logged transcript: element boundaries for any element type (incl. u32 length prefixes)
// ---------------------------------------------------------------------------------------------

use midnight_proofs::transcript::{CircuitTranscript, Transcript};

/// One element read from (or written to) the proof buffer by the code under test.
#[derive(Clone, Debug, PartialEq, Eq)]
pub struct Element {
    /// 'P' group element, 'S' scalar, 'U' u32, '?' other
    pub kind: char,
    pub offset: usize,
    pub len: usize,
}

thread_local! {
    static ELEMENTS: RefCell<Vec<Element>> = const { RefCell::new(Vec::new()) };
    static SQUEEZES: RefCell<usize> = const { RefCell::new(0) };
}

/// Clears and returns the elements recorded on this thread by `LoggedTranscript`s.
pub fn take_elements() -> Vec<Element> {
    ELEMENTS.with(|e| std::mem::take(&mut *e.borrow_mut()))
}

/// Number of challenges squeezed through `LoggedTranscript`s on this thread since the last call.
pub fn take_squeeze_count() -> usize {
    SQUEEZES.with(|s| std::mem::replace(&mut *s.borrow_mut(), 0))
}

fn kind_of<T>() -> char {
    let n = std::any::type_name::<T>();
    if n.contains("G1") || n.contains("Projective") || n.contains("Affine") {
        'P'
    } else if n.ends_with("u32") {
        'U'
    } else if n.contains("Fq") || n.contains("Fr") || n.contains("Scalar") {
        'S'
    } else {
        '?'
    }
}

/// A `Transcript` that delegates to `CircuitTranscript<H>` and records, for every `read` /
/// `write`, the byte range of the element in the proof buffer. Works with the repository's own
/// hash types (no wrapper hash needed), so any `Hashable` impl — including the blanket one for
/// `u32` — is covered.
#[derive(Clone, Debug)]
pub struct LoggedTranscript<H: TranscriptHash>(pub CircuitTranscript<H>);

impl<H: TranscriptHash> Transcript for LoggedTranscript<H> {
    type Hash = H;

    fn init() -> Self {
        LoggedTranscript(CircuitTranscript::init())
    }

    fn init_from_bytes(bytes: &[u8]) -> Self {
        LoggedTranscript(CircuitTranscript::init_from_bytes(bytes))
    }

    fn squeeze_challenge<T: Sampleable<H>>(&mut self) -> T {
        SQUEEZES.with(|s| *s.borrow_mut() += 1);
        self.0.squeeze_challenge()
    }

    fn common<T: Hashable<H>>(&mut self, input: &T) -> io::Result<()> {
        self.0.common(input)
    }

    fn read<T: Hashable<H>>(&mut self) -> io::Result<T> {
        let before = self.0.buffer().position() as usize;
        let r = self.0.read::<T>();
        let after = self.0.buffer().position() as usize;
        ELEMENTS.with(|e| {
            e.borrow_mut().push(Element {
                kind: kind_of::<T>(),
                offset: before,
                len: after - before,
            })
        });
        r
    }

    fn write<T: Hashable<H>>(&mut self, input: &T) -> io::Result<()> {
        let before = self.0.buffer().position() as usize;
        let r = self.0.write(input);
        let after = self.0.buffer().position() as usize;
        ELEMENTS.with(|e| {
            e.borrow_mut().push(Element {
                kind: kind_of::<T>(),
                offset: before,
                len: after - before,
            })
        });
        r
    }

    fn finalize(self) -> Vec<u8> {
        self.0.finalize()
    }

    fn assert_empty(&mut self) -> io::Result<()> {
        self.0.assert_empty()
    }
}
