//! Shared engines (DESIGN.md §4).
