//! Shared engines (DESIGN.md §4).
pub mod ars;
pub mod catalogue;
pub mod gen_circuit;
pub mod logged_hash;
pub mod plonk_util;
pub mod ref_eval;
pub mod relations;
pub mod totality;
