//! Shared helpers around the real prover / verifier for generated circuits (E1): seeded SRS
//! cache, key generation, proving and verifying with a chosen transcript hash; every entry point
//! converts panics into `Err("panic@<file>: msg")`.

use std::sync::OnceLock;

use midnight_curves::{Bls12, Fq, G1Projective};
use midnight_proofs::{
    plonk::{
        commit_to_instances, create_proof, keygen_pk, keygen_vk_with_k, prepare, Circuit,
        ProvingKey, VerifyingKey,
    },
    poly::{
        commitment::Guard,
        kzg::{params::ParamsKZG, KZGCommitmentScheme},
    },
    transcript::{CircuitTranscript, Hashable, Sampleable, Transcript, TranscriptHash},
};
use rand::SeedableRng;
use rand_chacha::ChaCha8Rng;
use serde::{Deserialize, Serialize};

use super::gen_circuit::{instance_of, GenCircuit, GenSpec};
use crate::common::{catch_any, repo_file};

pub type CS = KZGCommitmentScheme<Bls12>;
pub type VK = VerifyingKey<Fq, CS>;
pub type PK = ProvingKey<Fq, CS>;

/// Seeded `unsafe_setup` parameters of exactly size `k` (cached per process).
pub fn params_for(k: u32) -> &'static ParamsKZG<Bls12> {
    static P: OnceLock<Vec<OnceLock<ParamsKZG<Bls12>>>> = OnceLock::new();
    let v = P.get_or_init(|| (0..24).map(|_| OnceLock::new()).collect());
    v[k as usize]
        .get_or_init(|| ParamsKZG::unsafe_setup(k, ChaCha8Rng::seed_from_u64(0x5125 + k as u64)))
}

#[derive(Clone, Debug, Serialize, Deserialize, PartialEq, Eq, Hash)]
pub struct FamCase {
    pub spec: GenSpec,
    pub np: usize,
    pub nc: usize,
    pub poseidon: bool,
    pub wseeds: Vec<u64>,
}

fn perr(p: crate::common::PanicInfo) -> String {
    format!("panic@{}: {}", repo_file(&p.file), p.message)
}

pub fn keygen_family(spec: &GenSpec) -> Result<(VK, PK), String> {
    let c = GenCircuit {
        spec: spec.clone(),
        witness_seed: None,
        faults: vec![],
    };
    let params = params_for(spec.k);
    match catch_any(|| {
        let vk = keygen_vk_with_k::<Fq, CS, _>(params, &c, spec.k)?;
        let pk = keygen_pk::<Fq, CS, _>(vk.clone(), &c)?;
        Ok::<_, midnight_proofs::plonk::Error>((vk, pk))
    }) {
        Ok(Ok(x)) => Ok(x),
        Ok(Err(e)) => Err(format!("keygen-error: {e:?}")),
        Err(p) => Err(perr(p)),
    }
}

/// Instances of all proofs of a case: `[proof][column][row]`.
pub fn instances_of(case: &FamCase) -> Vec<Vec<Vec<Fq>>> {
    case.wseeds.iter().map(|s| instance_of::<Fq>(&case.spec, *s)).collect()
}

pub fn prove_family<H>(case: &FamCase, pk: &PK) -> Result<Vec<u8>, String>
where
    H: TranscriptHash,
    G1Projective: Hashable<H>,
    Fq: Hashable<H> + Sampleable<H>,
{
    let circuits: Vec<GenCircuit> =
        case.wseeds.iter().map(|s| GenCircuit::new(case.spec.clone(), *s)).collect();
    let instances = instances_of(case);
    let inst_refs: Vec<Vec<&[Fq]>> =
        instances.iter().map(|i| i.iter().map(|c| c.as_slice()).collect()).collect();
    let inst_refs2: Vec<&[&[Fq]]> = inst_refs.iter().map(|i| i.as_slice()).collect();
    let params = params_for(case.spec.k);
    match catch_any(|| {
        let mut t = CircuitTranscript::<H>::init();
        create_proof::<Fq, CS, _, _>(
            params,
            pk,
            &circuits,
            case.nc,
            &inst_refs2,
            ChaCha8Rng::seed_from_u64(case.wseeds[0] ^ 0x5eed),
            &mut t,
        )
        .map(|_| t.finalize())
    }) {
        Ok(Ok(p)) => Ok(p),
        Ok(Err(e)) => Err(format!("prover-error: {e:?}")),
        Err(p) => Err(perr(p)),
    }
}

/// Commitments of the first `nc` instance columns of every proof.
pub fn committed_of(vk: &VK, k: u32, instances: &[Vec<Vec<Fq>>], nc: usize) -> Vec<Vec<G1Projective>> {
    let params = params_for(k);
    instances
        .iter()
        .map(|inst| {
            inst[..nc]
                .iter()
                .map(|col| commit_to_instances::<Fq, CS>(params, vk.get_domain(), col))
                .collect()
        })
        .collect()
}

/// Full verification (prepare + assert_empty + final pairing check).
pub fn verify_family<H>(
    vk: &VK,
    k: u32,
    committed: &[Vec<G1Projective>],
    plain: &[Vec<Vec<Fq>>],
    proof: &[u8],
) -> Result<(), String>
where
    H: TranscriptHash,
    G1Projective: Hashable<H>,
    Fq: Hashable<H> + Sampleable<H>,
{
    let committed_refs: Vec<&[G1Projective]> = committed.iter().map(|c| c.as_slice()).collect();
    let plain_r: Vec<Vec<&[Fq]>> =
        plain.iter().map(|i| i.iter().map(|c| c.as_slice()).collect()).collect();
    let plain_refs: Vec<&[&[Fq]]> = plain_r.iter().map(|i| i.as_slice()).collect();
    let params = params_for(k);
    match catch_any(|| {
        let mut t = CircuitTranscript::<H>::init_from_bytes(proof);
        let guard = prepare::<Fq, CS, _>(vk, &committed_refs, &plain_refs, &mut t)
            .map_err(|e| format!("prepare-error: {e:?}"))?;
        t.assert_empty().map_err(|e| format!("trailing-bytes: {e:?}"))?;
        guard.verify(&params.verifier_params()).map_err(|e| format!("verify-error: {e:?}"))
    }) {
        Ok(r) => r,
        Err(p) => Err(perr(p)),
    }
}

/// Splits instances into (committed commitments, plain columns) for the verifier.
pub fn split_for_verifier(
    vk: &VK,
    case: &FamCase,
    instances: &[Vec<Vec<Fq>>],
) -> (Vec<Vec<G1Projective>>, Vec<Vec<Vec<Fq>>>) {
    let committed = committed_of(vk, case.spec.k, instances, case.nc);
    let plain = instances.iter().map(|i| i[case.nc..].to_vec()).collect();
    (committed, plain)
}

/// Marker so that callers can name the circuit type generically.
pub fn circuit_without_witness(spec: &GenSpec) -> impl Circuit<Fq> {
    GenCircuit {
        spec: spec.clone(),
        witness_seed: None,
        faults: vec![],
    }
}
