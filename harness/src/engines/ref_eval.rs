//! E3 + E6 — table collector, synthesis-trace recorder and reference constraint evaluator.
//!
//! `collect` runs `Circuit::configure_with_params` + `FloorPlanner::synthesize` against a harness
//! `Assignment` back-end (independent of the repository's `MockProver` and of its prover) and
//! stores the fixed / advice / instance / selector tables, the copy list and — optionally — the
//! ordered trace of structural events. `Tables::violations` evaluates, from the definition and
//! row by row, every constraint class of the constraint system:
//!   * gates: every polynomial of every gate is zero on every usable row;
//!   * lookups: every input tuple on a usable row occurs among the table tuples of usable rows;
//!   * copies: both cells of every recorded copy hold the same value;
//!   * trash (additive-selector) arguments: on every row where the selector expression is
//!     non-zero all constraint expressions are zero.
//! Unassigned cells read as zero (what the real prover and key generator do). It uses only public
//! accessors of `ConstraintSystem` and `Expression::evaluate`.

use std::collections::{BTreeMap, BTreeSet, HashSet};

use ff::{FromUniformBytes, PrimeField};
use midnight_proofs::{
    circuit::Value,
    plonk::{
        Advice, Any, Assignment, Challenge, Circuit, Column, ConstraintSystem, Error, Expression,
        Fixed, FloorPlanner, Instance, Selector,
    },
    utils::rational::Rational,
};

/// One structural event of `synthesize` (E6). Advice *values* are never part of the trace.
#[derive(Clone, Debug, PartialEq, Eq, Hash)]
pub enum Event {
    EnterRegion,
    ExitRegion,
    EnableSelector { selector: usize, row: usize },
    AssignFixed { column: usize, row: usize, value: Vec<u8> },
    FillFromRow { column: usize, row: usize, value: Vec<u8> },
    AssignAdvice { column: usize, row: usize },
    Copy { a: (u8, usize, usize), b: (u8, usize, usize) },
    QueryInstance { column: usize, row: usize },
}

impl Event {
    pub fn describe(&self) -> String {
        format!("{self:?}")
    }
}

fn any_tag(c: &Column<Any>) -> (u8, usize) {
    let t = match c.column_type() {
        Any::Advice(_) => 0u8,
        Any::Fixed => 1u8,
        Any::Instance => 2u8,
    };
    (t, c.index())
}

#[derive(Clone, Debug, PartialEq, Eq, Hash, PartialOrd, Ord)]
pub enum CellRef {
    Advice(usize, usize),
    Fixed(usize, usize),
    Instance(usize, usize),
}

/// Which constraint a violation belongs to.
#[derive(Clone, Debug, PartialEq, Eq, Hash, PartialOrd, Ord)]
pub enum Failure {
    Gate { gate: usize, poly: usize, row: usize, name: String },
    Lookup { lookup: usize, row: usize, name: String },
    Copy { a: CellRef, b: CellRef },
    Trash { trash: usize, poly: usize, row: usize, name: String },
}

impl Failure {
    pub fn class(&self) -> &'static str {
        match self {
            Failure::Gate { .. } => "gate",
            Failure::Lookup { .. } => "lookup",
            Failure::Copy { .. } => "copy",
            Failure::Trash { .. } => "trash",
        }
    }
}

pub struct Tables<F: PrimeField> {
    pub k: u32,
    pub n: usize,
    pub usable_rows: usize,
    pub cs: ConstraintSystem<F>,
    pub fixed: Vec<Vec<F>>,
    pub fixed_assigned: Vec<Vec<bool>>,
    pub advice: Vec<Vec<F>>,
    pub advice_assigned: Vec<Vec<bool>>,
    pub instance: Vec<Vec<F>>,
    pub selectors: Vec<Vec<bool>>,
    pub copies: Vec<(CellRef, CellRef)>,
    pub challenges: Vec<F>,
    pub trace: Vec<Event>,
}

struct Collector<F: PrimeField> {
    k: u32,
    usable_rows: usize,
    current_phase: u8,
    advice_phase: Vec<u8>,
    challenge_phase: Vec<u8>,
    fixed: Vec<Vec<F>>,
    fixed_assigned: Vec<Vec<bool>>,
    advice: Vec<Vec<F>>,
    advice_assigned: Vec<Vec<bool>>,
    instance: Vec<Vec<F>>,
    selectors: Vec<Vec<bool>>,
    copies: Vec<(CellRef, CellRef)>,
    challenges: Vec<F>,
    perm_columns: Vec<Column<Any>>,
    /// evaluate advice closures and store values (false = structure only, unknown witness ok)
    with_values: bool,
    record: bool,
    trace: Vec<Event>,
}

fn extract<F: Clone>(v: Value<F>) -> Option<F> {
    let mut out = None;
    v.map(|x| out = Some(x));
    out
}

fn cell_of(c: Column<Any>, row: usize) -> CellRef {
    match c.column_type() {
        Any::Advice(_) => CellRef::Advice(c.index(), row),
        Any::Fixed => CellRef::Fixed(c.index(), row),
        Any::Instance => CellRef::Instance(c.index(), row),
    }
}

impl<F: PrimeField> Assignment<F> for Collector<F> {
    fn enter_region<NR, N>(&mut self, _: N)
    where
        NR: Into<String>,
        N: FnOnce() -> NR,
    {
        if self.record && self.current_phase == 0 {
            self.trace.push(Event::EnterRegion);
        }
    }

    fn annotate_column<A, AR>(&mut self, _: A, _: Column<Any>)
    where
        A: FnOnce() -> AR,
        AR: Into<String>,
    {
    }

    fn exit_region(&mut self) {
        if self.record && self.current_phase == 0 {
            self.trace.push(Event::ExitRegion);
        }
    }

    fn enable_selector<A, AR>(&mut self, _: A, selector: &Selector, row: usize) -> Result<(), Error>
    where
        A: FnOnce() -> AR,
        AR: Into<String>,
    {
        if self.current_phase != 0 {
            return Ok(());
        }
        if row >= self.usable_rows {
            return Err(Error::NotEnoughRowsAvailable { current_k: self.k });
        }
        self.selectors[selector.index()][row] = true;
        if self.record {
            self.trace.push(Event::EnableSelector {
                selector: selector.index(),
                row,
            });
        }
        Ok(())
    }

    fn query_instance(&self, column: Column<Instance>, row: usize) -> Result<Value<F>, Error> {
        if row >= self.usable_rows {
            return Err(Error::NotEnoughRowsAvailable { current_k: self.k });
        }
        Ok(self
            .instance
            .get(column.index())
            .and_then(|c| c.get(row))
            .map(|v| Value::known(*v))
            .unwrap_or_else(Value::unknown))
    }

    fn assign_advice<V, VR, A, AR>(
        &mut self,
        _: A,
        column: Column<Advice>,
        row: usize,
        to: V,
    ) -> Result<(), Error>
    where
        V: FnOnce() -> Value<VR>,
        VR: Into<Rational<F>>,
        A: FnOnce() -> AR,
        AR: Into<String>,
    {
        if self.record && self.current_phase == 0 {
            self.trace.push(Event::AssignAdvice {
                column: column.index(),
                row,
            });
        }
        if row >= self.usable_rows {
            return Err(Error::NotEnoughRowsAvailable { current_k: self.k });
        }
        if !self.with_values {
            return Ok(());
        }
        if self.advice_phase[column.index()] != self.current_phase {
            return Ok(());
        }
        let v: Option<Rational<F>> = extract(to().map(|v| v.into()));
        match v {
            Some(r) => {
                self.advice[column.index()][row] = r.evaluate();
                self.advice_assigned[column.index()][row] = true;
                Ok(())
            }
            None => Err(Error::Synthesis("unknown value".into())),
        }
    }

    fn assign_fixed<V, VR, A, AR>(
        &mut self,
        _: A,
        column: Column<Fixed>,
        row: usize,
        to: V,
    ) -> Result<(), Error>
    where
        V: FnOnce() -> Value<VR>,
        VR: Into<Rational<F>>,
        A: FnOnce() -> AR,
        AR: Into<String>,
    {
        if self.current_phase != 0 {
            return Ok(());
        }
        if row >= self.usable_rows {
            return Err(Error::NotEnoughRowsAvailable { current_k: self.k });
        }
        let v: Option<Rational<F>> = extract(to().map(|v| v.into()));
        let v = v.ok_or_else(|| Error::Synthesis("unknown value".into()))?.evaluate();
        self.fixed[column.index()][row] = v;
        self.fixed_assigned[column.index()][row] = true;
        if self.record {
            self.trace.push(Event::AssignFixed {
                column: column.index(),
                row,
                value: v.to_repr().as_ref().to_vec(),
            });
        }
        Ok(())
    }

    fn copy(
        &mut self,
        left_column: Column<Any>,
        left_row: usize,
        right_column: Column<Any>,
        right_row: usize,
    ) -> Result<(), Error> {
        if self.current_phase != 0 {
            return Ok(());
        }
        if left_row >= self.usable_rows || right_row >= self.usable_rows {
            return Err(Error::NotEnoughRowsAvailable { current_k: self.k });
        }
        for c in [&left_column, &right_column] {
            if !self.perm_columns.contains(c) {
                return Err(Error::ColumnNotInPermutation(*c));
            }
        }
        self.copies.push((cell_of(left_column, left_row), cell_of(right_column, right_row)));
        if self.record {
            let a = any_tag(&left_column);
            let b = any_tag(&right_column);
            self.trace.push(Event::Copy {
                a: (a.0, a.1, left_row),
                b: (b.0, b.1, right_row),
            });
        }
        Ok(())
    }

    fn fill_from_row(
        &mut self,
        column: Column<Fixed>,
        row: usize,
        to: Value<Rational<F>>,
    ) -> Result<(), Error> {
        if self.current_phase != 0 {
            return Ok(());
        }
        if row >= self.usable_rows {
            return Err(Error::NotEnoughRowsAvailable { current_k: self.k });
        }
        let v = extract(to).ok_or_else(|| Error::Synthesis("unknown value".into()))?.evaluate();
        for r in row..self.usable_rows {
            self.fixed[column.index()][r] = v;
            self.fixed_assigned[column.index()][r] = true;
        }
        if self.record {
            self.trace.push(Event::FillFromRow {
                column: column.index(),
                row,
                value: v.to_repr().as_ref().to_vec(),
            });
        }
        Ok(())
    }

    fn get_challenge(&self, challenge: Challenge) -> Value<F> {
        if self.challenge_phase[challenge.index()] < self.current_phase {
            Value::known(self.challenges[challenge.index()])
        } else {
            Value::unknown()
        }
    }

    fn push_namespace<NR, N>(&mut self, _: N)
    where
        NR: Into<String>,
        N: FnOnce() -> NR,
    {
    }

    fn pop_namespace(&mut self, _: Option<String>) {}
}

/// Options of `collect`.
#[derive(Clone, Copy, Debug)]
pub struct CollectOpts {
    /// evaluate advice closures (needs a known witness)
    pub with_values: bool,
    /// record the structural event trace (E6)
    pub record_trace: bool,
}

impl Default for CollectOpts {
    fn default() -> Self {
        CollectOpts {
            with_values: true,
            record_trace: false,
        }
    }
}

/// Deterministic challenges for table collection (same derivation as the repository's mock
/// checker uses, so both see the same multi-phase witness).
pub fn mock_challenges<F: FromUniformBytes<64>>(n: usize) -> Vec<F> {
    let mut hash: [u8; 64] =
        blake2b_simd::blake2b(b"Halo2-MockProver").as_bytes().try_into().unwrap();
    (0..n)
        .map(|_| {
            hash = blake2b_simd::blake2b(&hash).as_bytes().try_into().unwrap();
            F::from_uniform_bytes(&hash)
        })
        .collect()
}

/// Runs configure + synthesize of `circuit` against the collector.
pub fn collect<F, C>(
    k: u32,
    circuit: &C,
    instance: &[Vec<F>],
    opts: CollectOpts,
) -> Result<Tables<F>, String>
where
    F: PrimeField + FromUniformBytes<64>,
    C: Circuit<F>,
{
    let n = 1usize << k;
    let mut cs = ConstraintSystem::default();
    let config = C::configure_with_params(&mut cs, circuit.params());
    if n < cs.minimum_rows() {
        return Err(format!("k={k} too small: minimum_rows={}", cs.minimum_rows()));
    }
    let usable_rows = n - (cs.blinding_factors() + 1);
    if instance.len() != cs.num_instance_columns() {
        return Err(format!(
            "instance columns: given {}, circuit has {}",
            instance.len(),
            cs.num_instance_columns()
        ));
    }
    let mut inst = vec![vec![F::ZERO; n]; cs.num_instance_columns()];
    for (c, col) in instance.iter().enumerate() {
        if col.len() > usable_rows {
            return Err(format!("instance column {c} too long: {} > {usable_rows}", col.len()));
        }
        inst[c][..col.len()].copy_from_slice(col);
    }
    let advice_phase = cs.advice_column_phase();
    let max_phase = advice_phase.iter().copied().max().unwrap_or(0);
    let mut col = Collector {
        k,
        usable_rows,
        current_phase: 0,
        advice_phase,
        challenge_phase: cs.challenge_phase(),
        fixed: vec![vec![F::ZERO; n]; cs.num_fixed_columns()],
        fixed_assigned: vec![vec![false; n]; cs.num_fixed_columns()],
        advice: vec![vec![F::ZERO; n]; cs.num_advice_columns()],
        advice_assigned: vec![vec![false; n]; cs.num_advice_columns()],
        instance: inst,
        selectors: vec![vec![false; n]; cs.num_selectors()],
        copies: vec![],
        challenges: mock_challenges::<F>(cs.num_challenges()),
        perm_columns: cs.permutation().get_columns(),
        with_values: opts.with_values,
        record: opts.record_trace,
        trace: vec![],
    };
    let phases: Vec<u8> = if opts.with_values { (0..=max_phase).collect() } else { vec![0] };
    for phase in phases {
        col.current_phase = phase;
        C::FloorPlanner::synthesize(&mut col, circuit, config.clone(), cs.constants().clone())
            .map_err(|e| format!("synthesis error in phase {phase}: {e:?}"))?;
    }
    Ok(Tables {
        k,
        n,
        usable_rows,
        cs,
        fixed: col.fixed,
        fixed_assigned: col.fixed_assigned,
        advice: col.advice,
        advice_assigned: col.advice_assigned,
        instance: col.instance,
        selectors: col.selectors,
        copies: col.copies,
        challenges: col.challenges,
        trace: col.trace,
    })
}

impl<F: PrimeField> Tables<F> {
    #[inline]
    fn rot(&self, row: usize, rotation: i32) -> usize {
        (row as i64 + rotation as i64).rem_euclid(self.n as i64) as usize
    }

    pub fn get(&self, c: &CellRef) -> F {
        match c {
            CellRef::Advice(c, r) => self.advice[*c][*r],
            CellRef::Fixed(c, r) => self.fixed[*c][*r],
            CellRef::Instance(c, r) => self.instance[*c][*r],
        }
    }

    pub fn set(&mut self, c: &CellRef, v: F) {
        match c {
            CellRef::Advice(c, r) => self.advice[*c][*r] = v,
            CellRef::Fixed(c, r) => self.fixed[*c][*r] = v,
            CellRef::Instance(c, r) => self.instance[*c][*r] = v,
        }
    }

    /// Evaluates `expr` on `row` from the definition.
    pub fn eval(&self, expr: &Expression<F>, row: usize) -> F {
        expr.evaluate(
            &|c| c,
            &|s| {
                if self.selectors[s.index()][row] {
                    F::ONE
                } else {
                    F::ZERO
                }
            },
            &|q| self.fixed[q.column_index()][self.rot(row, q.rotation().0)],
            &|q| self.advice[q.column_index()][self.rot(row, q.rotation().0)],
            &|q| self.instance[q.column_index()][self.rot(row, q.rotation().0)],
            &|ch| self.challenges[ch.index()],
            &|a| -a,
            &|a, b| a + b,
            &|a, b| a * b,
            &|a, s| a * s,
        )
    }

    /// Cells read by `expr` when evaluated on `row`.
    pub fn cells_read(&self, expr: &Expression<F>, row: usize, out: &mut BTreeSet<CellRef>) {
        let cells: std::cell::RefCell<&mut BTreeSet<CellRef>> = std::cell::RefCell::new(out);
        expr.evaluate(
            &|_| (),
            &|_| (),
            &|q| {
                cells.borrow_mut().insert(CellRef::Fixed(q.column_index(), self.rot(row, q.rotation().0)));
            },
            &|q| {
                cells.borrow_mut().insert(CellRef::Advice(q.column_index(), self.rot(row, q.rotation().0)));
            },
            &|q| {
                cells
                    .borrow_mut()
                    .insert(CellRef::Instance(q.column_index(), self.rot(row, q.rotation().0)));
            },
            &|_| (),
            &|_| (),
            &|_, _| (),
            &|_, _| (),
            &|_, _| (),
        );
    }

    /// True when the gate's polynomial can only be non-zero on `row` if one of its selector /
    /// fixed factors is non-zero there: cheap pre-filter used to skip inactive rows. We simply
    /// evaluate; this is the oracle, clarity over speed.
    pub fn gate_failures(&self, rows: impl Iterator<Item = usize> + Clone, out: &mut Vec<Failure>, cap: usize) {
        for (gi, gate) in self.cs.gates().iter().enumerate() {
            for (pi, poly) in gate.polynomials().iter().enumerate() {
                for row in rows.clone() {
                    if self.eval(poly, row) != F::ZERO {
                        if out.len() < cap {
                            out.push(Failure::Gate {
                                gate: gi,
                                poly: pi,
                                row,
                                name: gate.name().to_string(),
                            });
                        } else {
                            return;
                        }
                    }
                }
            }
        }
    }

    fn tuple(&self, exprs: &[Expression<F>], row: usize) -> Vec<Vec<u8>> {
        exprs.iter().map(|e| self.eval(e, row).to_repr().as_ref().to_vec()).collect()
    }

    pub fn lookup_failures(&self, out: &mut Vec<Failure>, cap: usize) {
        for (li, l) in self.cs.lookups().iter().enumerate() {
            let table: HashSet<Vec<Vec<u8>>> =
                (0..self.usable_rows).map(|r| self.tuple(l.table_expressions(), r)).collect();
            for row in 0..self.usable_rows {
                if !table.contains(&self.tuple(l.input_expressions(), row)) {
                    if out.len() < cap {
                        out.push(Failure::Lookup {
                            lookup: li,
                            row,
                            name: l.name().to_string(),
                        });
                    } else {
                        return;
                    }
                }
            }
        }
    }

    pub fn copy_failures(&self, out: &mut Vec<Failure>, cap: usize) {
        for (a, b) in &self.copies {
            if self.get(a) != self.get(b) && out.len() < cap {
                out.push(Failure::Copy {
                    a: a.clone(),
                    b: b.clone(),
                });
            }
        }
    }

    pub fn trash_failures(&self, out: &mut Vec<Failure>, cap: usize) {
        for (ti, t) in self.cs.trashcans().iter().enumerate() {
            for row in 0..self.n {
                if self.eval(t.selector(), row) == F::ZERO {
                    continue;
                }
                for (pi, e) in t.constraint_expressions().iter().enumerate() {
                    if self.eval(e, row) != F::ZERO {
                        if out.len() < cap {
                            out.push(Failure::Trash {
                                trash: ti,
                                poly: pi,
                                row,
                                name: t.name().to_string(),
                            });
                        } else {
                            return;
                        }
                    }
                }
            }
        }
    }

    /// All violated constraints (at most `cap` of them).
    pub fn violations(&self, cap: usize) -> Vec<Failure> {
        let mut out = vec![];
        self.gate_failures(0..self.usable_rows, &mut out, cap);
        self.lookup_failures(&mut out, cap);
        self.copy_failures(&mut out, cap);
        self.trash_failures(&mut out, cap);
        out
    }

    pub fn satisfied(&self) -> bool {
        self.violations(1).is_empty()
    }

    /// Violated constraints, restricted to the classes `MockProver` looks at (everything except
    /// trash arguments). Used to tell apart "mock is blind to trash" (known finding F2) from
    /// other disagreements.
    pub fn violations_without_trash(&self, cap: usize) -> Vec<Failure> {
        let mut out = vec![];
        self.gate_failures(0..self.usable_rows, &mut out, cap);
        self.lookup_failures(&mut out, cap);
        self.copy_failures(&mut out, cap);
        out
    }

    /// Assigned advice cells, in column-major order.
    pub fn assigned_advice_cells(&self) -> Vec<(usize, usize)> {
        let mut v = vec![];
        for (c, col) in self.advice_assigned.iter().enumerate() {
            for (r, a) in col.iter().enumerate() {
                if *a {
                    v.push((c, r));
                }
            }
        }
        v
    }

    /// For every advice cell: the classes of constraints that read it on a row where the
    /// constraint is "active" (gate value depends on it is approximated by: the gate polynomial
    /// changes when the cell changes by +1). Used for coverage stratification only.
    pub fn classes_of_cell(&mut self, cell: (usize, usize)) -> BTreeSet<&'static str> {
        let before = self.violations(usize::MAX).into_iter().collect::<BTreeSet<_>>();
        let old = self.advice[cell.0][cell.1];
        self.advice[cell.0][cell.1] = old + F::ONE;
        let after = self.violations(usize::MAX).into_iter().collect::<BTreeSet<_>>();
        self.advice[cell.0][cell.1] = old;
        after.difference(&before).map(|f| f.class()).collect()
    }

    /// Copy-constraint equivalence classes (union-find over the recorded copies).
    pub fn copy_classes(&self) -> BTreeMap<CellRef, Vec<CellRef>> {
        let mut parent: BTreeMap<CellRef, CellRef> = BTreeMap::new();
        fn find(p: &mut BTreeMap<CellRef, CellRef>, x: &CellRef) -> CellRef {
            let px = p.get(x).cloned().unwrap_or_else(|| x.clone());
            if &px == x {
                p.insert(x.clone(), x.clone());
                return px;
            }
            let r = find(p, &px);
            p.insert(x.clone(), r.clone());
            r
        }
        for (a, b) in &self.copies {
            let ra = find(&mut parent, a);
            let rb = find(&mut parent, b);
            if ra != rb {
                parent.insert(ra, rb);
            }
        }
        let keys: Vec<CellRef> = parent.keys().cloned().collect();
        let mut classes: BTreeMap<CellRef, Vec<CellRef>> = BTreeMap::new();
        for k in keys {
            let r = find(&mut parent, &k);
            classes.entry(r).or_default().push(k);
        }
        classes
    }

    /// Structural digest used by C09/C17-style comparisons: fixed tables, selectors, copies.
    pub fn structure_digest(&self) -> u64 {
        use std::hash::{Hash, Hasher};
        let mut h = std::collections::hash_map::DefaultHasher::new();
        for col in &self.fixed {
            for v in col {
                v.to_repr().as_ref().hash(&mut h);
            }
        }
        self.selectors.hash(&mut h);
        self.copies.hash(&mut h);
        h.finish()
    }
}

/// Verdict of the repository's own development-time checker on the same circuit/instance.
pub fn mock_verdict<F, C>(k: u32, circuit: &C, instance: &[Vec<F>]) -> Result<bool, String>
where
    F: PrimeField + FromUniformBytes<64> + Ord,
    C: Circuit<F>,
{
    match midnight_proofs::dev::MockProver::run(k, circuit, instance.to_vec()) {
        Ok(p) => Ok(p.verify().is_ok()),
        Err(e) => Err(format!("{e:?}")),
    }
}

/// Both verdicts for one circuit+instance: `(reference, mock)`; `Err` = synthesis error (a
/// circuit that refuses to synthesise counts as "rejected" by callers where appropriate).
pub struct Verdicts {
    pub reference: Result<bool, String>,
    pub mock: Result<bool, String>,
    pub ref_failures: Vec<Failure>,
    pub only_trash: bool,
}

pub fn check_circuit<F, C>(k: u32, circuit: &C, instance: &[Vec<F>]) -> Verdicts
where
    F: PrimeField + FromUniformBytes<64> + Ord,
    C: Circuit<F>,
{
    let (reference, ref_failures, only_trash) = match collect(k, circuit, instance, CollectOpts::default()) {
        Ok(t) => {
            let f = t.violations(8);
            let only_trash = !f.is_empty() && t.violations_without_trash(1).is_empty();
            (Ok(f.is_empty()), f, only_trash)
        }
        Err(e) => (Err(e), vec![], false),
    };
    let mock = mock_verdict(k, circuit, instance);
    Verdicts {
        reference,
        mock,
        ref_failures,
        only_trash,
    }
}
