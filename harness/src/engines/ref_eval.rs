//! engine: ref_eval (see DESIGN.md §4)
