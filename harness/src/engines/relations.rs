//! A handful of hand-written standard-library relations used as proof sources by several checks
//! (C01 part ii, C03, C15, C16, C17). Each comes with a seeded generator of valid
//! (instance, witness) pairs computed with reference crates.

use ff::Field;
use group::Group;
use midnight_circuits::{
    hash::poseidon::PoseidonChip,
    instructions::{
        hash::HashCPU, ArithInstructions, AssertionInstructions, AssignmentInstructions,
        DecompositionInstructions, EccInstructions, PublicInputInstructions,
    },
    types::{AssignedByte, AssignedNativePoint, Instantiable},
};
use midnight_curves::{Fq as F, Fr as JubjubScalar, JubjubExtended as Jubjub, JubjubSubgroup};
use midnight_proofs::{
    circuit::{Layouter, Value},
    plonk::Error,
};
use midnight_zk_stdlib::{Relation, ZkStdLib, ZkStdLibArch};
use rand::Rng;
use rand_chacha::ChaCha8Rng;
use sha2::Digest;

fn rand_f(rng: &mut ChaCha8Rng) -> F {
    F::random(rng)
}

macro_rules! no_payload {
    ($t:ident) => {
        fn write_relation<W: std::io::Write>(&self, _w: &mut W) -> std::io::Result<()> {
            Ok(())
        }
        fn read_relation<R: std::io::Read>(_r: &mut R) -> std::io::Result<Self> {
            Ok($t::default())
        }
    };
}

/// x = a·b + a, plus a byte decomposition of a small value: instance [x, lo]
#[derive(Clone, Default, Debug)]
pub struct ArithRel;

impl Relation for ArithRel {
    type Instance = (F, F);
    type Witness = (F, F, u8);
    fn format_instance(i: &Self::Instance) -> Result<Vec<F>, Error> {
        Ok(vec![i.0, i.1])
    }
    fn circuit(
        &self,
        s: &ZkStdLib,
        l: &mut impl Layouter<F>,
        _i: Value<Self::Instance>,
        w: Value<Self::Witness>,
    ) -> Result<(), Error> {
        let a = s.assign(l, w.map(|w| w.0))?;
        let b = s.assign(l, w.map(|w| w.1))?;
        let c = s.assign(l, w.map(|w| F::from(w.2 as u64)))?;
        let ab = s.mul(l, &a, &b, None)?;
        let x = s.add(l, &ab, &a)?;
        let bytes = s.assigned_to_le_bytes(l, &c, Some(1))?;
        let lo: midnight_circuits::types::AssignedNative<F> = s.assigned_from_le_bytes(l, &bytes)?;
        s.assert_equal(l, &lo, &c)?;
        s.constrain_as_public_input(l, &x)?;
        s.constrain_as_public_input(l, &lo)
    }
    no_payload!(ArithRel);
}

impl ArithRel {
    pub fn sample(rng: &mut ChaCha8Rng) -> ((F, F), (F, F, u8)) {
        let (a, b, c) = (rand_f(rng), rand_f(rng), rng.gen::<u8>());
        ((a * b + a, F::from(c as u64)), (a, b, c))
    }
}

/// h = Poseidon(m0, m1, m2)
#[derive(Clone, Default, Debug)]
pub struct PoseidonRel;

impl Relation for PoseidonRel {
    type Instance = F;
    type Witness = [F; 3];
    fn format_instance(i: &Self::Instance) -> Result<Vec<F>, Error> {
        Ok(vec![*i])
    }
    fn circuit(
        &self,
        s: &ZkStdLib,
        l: &mut impl Layouter<F>,
        _i: Value<Self::Instance>,
        w: Value<Self::Witness>,
    ) -> Result<(), Error> {
        let m = s.assign_many(l, &w.transpose_array())?;
        let out = s.poseidon(l, &m)?;
        s.constrain_as_public_input(l, &out)
    }
    fn used_chips(&self) -> ZkStdLibArch {
        ZkStdLibArch {
            poseidon: true,
            ..ZkStdLibArch::default()
        }
    }
    no_payload!(PoseidonRel);
}

impl PoseidonRel {
    pub fn sample(rng: &mut ChaCha8Rng) -> (F, [F; 3]) {
        let w: [F; 3] = core::array::from_fn(|_| rand_f(rng));
        (<PoseidonChip<F> as HashCPU<F, F>>::hash(&w), w)
    }
}

/// digest = SHA-256(24 bytes)
#[derive(Clone, Default, Debug)]
pub struct ShaRel;

impl Relation for ShaRel {
    type Instance = [u8; 32];
    type Witness = [u8; 24];
    fn format_instance(i: &Self::Instance) -> Result<Vec<F>, Error> {
        Ok(i.iter().flat_map(AssignedByte::<F>::as_public_input).collect())
    }
    fn circuit(
        &self,
        s: &ZkStdLib,
        l: &mut impl Layouter<F>,
        _i: Value<Self::Instance>,
        w: Value<Self::Witness>,
    ) -> Result<(), Error> {
        let input = s.assign_many(l, &w.transpose_array())?;
        let out = s.sha2_256(l, &input)?;
        out.iter().try_for_each(|b| s.constrain_as_public_input(l, b))
    }
    fn used_chips(&self) -> ZkStdLibArch {
        ZkStdLibArch {
            sha2_256: true,
            ..ZkStdLibArch::default()
        }
    }
    no_payload!(ShaRel);
}

impl ShaRel {
    pub fn sample(rng: &mut ChaCha8Rng) -> ([u8; 32], [u8; 24]) {
        let w: [u8; 24] = core::array::from_fn(|_| rng.gen());
        (sha2::Sha256::digest(w).into(), w)
    }
}

/// P = s·G on Jubjub
#[derive(Clone, Default, Debug)]
pub struct EccRel;

impl Relation for EccRel {
    type Instance = JubjubSubgroup;
    type Witness = JubjubScalar;
    fn format_instance(i: &Self::Instance) -> Result<Vec<F>, Error> {
        Ok(AssignedNativePoint::<Jubjub>::as_public_input(i))
    }
    fn circuit(
        &self,
        s: &ZkStdLib,
        l: &mut impl Layouter<F>,
        _i: Value<Self::Instance>,
        w: Value<Self::Witness>,
    ) -> Result<(), Error> {
        let scalar = s.jubjub().assign(l, w)?;
        let g: AssignedNativePoint<Jubjub> =
            s.jubjub().assign_fixed(l, <JubjubSubgroup as Group>::generator())?;
        let r = s.jubjub().msm(l, &[scalar], &[g])?;
        s.jubjub().constrain_as_public_input(l, &r)
    }
    fn used_chips(&self) -> ZkStdLibArch {
        ZkStdLibArch {
            jubjub: true,
            ..ZkStdLibArch::default()
        }
    }
    no_payload!(EccRel);
}

impl EccRel {
    pub fn sample(rng: &mut ChaCha8Rng) -> (JubjubSubgroup, JubjubScalar) {
        let s = JubjubScalar::random(rng);
        (JubjubSubgroup::generator() * s, s)
    }
}
