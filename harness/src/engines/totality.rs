//! engine E8: totality runner (see DESIGN.md §4, §5 C16)
//!
//! Two pieces:
//!
//! 1. [`CountingAlloc`] — a `#[global_allocator]` wrapper around `System` that tracks live bytes,
//!    peak live bytes and the largest single request in *global* atomics (rayon workers allocate
//!    on other threads). The static must live in the binary:
//!    ```ignore
//!    mzv::install_counting_allocator!();            // at the top level of src/bin/cNN.rs
//!    let (r, stats) = totality::measure(|| decode(bytes));
//!    ```
//!    `measure` serialises measured closures with a process-wide lock; run one measured case at a
//!    time per process (or one process per case stream, as the child runner below does).
//!    Building with `RUSTFLAGS="--cfg mzv_no_counting_alloc"` (sanitizer builds) makes the macro
//!    expand to nothing; `measure` then reports `installed: false` and zeros.
//!
//! 2. The child-process runner. The binary re-executes itself (`std::env::current_exe()`) with
//!    `--child <shard file> --results <file> [--resume-unit U --resume-idx I]`. A shard file is a
//!    JSON-lines list of *units* `{"id":u,"lo":a,"hi":b,"body":{...}}`; a unit stands for the cases
//!    `(u, i)`, `a <= i < b`, whose meaning only the binary knows (`ChildRunner`). The child
//!    applies `setrlimit(RLIMIT_AS)`, and processes its cases one by one in file order, each under
//!    `common::catch` + `measure`, appending one JSON line per case to the results file *before*
//!    starting the next case. If the child dies (abort, SIGSEGV, allocation failure, stack
//!    overflow) the parent knows the killer — the first case in order without a result line —
//!    records `Abort(signal)` / `Alloc`, and restarts the child right after that case. A per-case
//!    wall-clock fence (no progress in the results file for `fence_secs`) kills the child; the
//!    pending case is `Hang`, which callers must treat as *inconclusive*, never as a violation.
//!
//! Verdict per case: `Ok | Err | Panic(location,message) | Abort(signal) | Alloc(peak,input_len)
//! | Hang`. Panics that the binary catches itself inside a case (stage-wise `catch`) are passed
//! through as `events`.

use std::{
    alloc::{GlobalAlloc, Layout, System},
    collections::VecDeque,
    io::{BufRead, BufReader, Read, Seek, SeekFrom, Write},
    path::{Path, PathBuf},
    process::{Command, Stdio},
    sync::{
        atomic::{AtomicBool, AtomicU64, AtomicUsize, Ordering::SeqCst},
        Arc, Mutex,
    },
    time::{Duration, Instant},
};

use serde_json::{json, Value as Json};

use crate::common::{catch_any, PanicInfo};

// ---------------------------------------------------------------------------------------------
// 1. counting allocator
// ---------------------------------------------------------------------------------------------

static LIVE: AtomicUsize = AtomicUsize::new(0);
static PEAK: AtomicUsize = AtomicUsize::new(0);
static LARGEST: AtomicUsize = AtomicUsize::new(0);
static N_ALLOCS: AtomicU64 = AtomicU64::new(0);
static INSTALLED: AtomicBool = AtomicBool::new(false);
static MEASURE_LOCK: Mutex<()> = Mutex::new(());

/// marker the allocator writes to fd 2 when the system allocator refuses a request (the process
/// is about to abort through `handle_alloc_error`); the parent greps the child's stderr for it
pub const ALLOC_FAIL_MARK: &str = "MZV-ALLOC-FAIL size=";

/// Counting wrapper around the system allocator. See the module documentation.
pub struct CountingAlloc;

impl CountingAlloc {
    #[inline]
    fn on_grow(size: usize) {
        let live = LIVE.fetch_add(size, SeqCst).wrapping_add(size);
        PEAK.fetch_max(live, SeqCst);
    }
    #[inline]
    fn on_request(size: usize) {
        if !INSTALLED.load(std::sync::atomic::Ordering::Relaxed) {
            INSTALLED.store(true, SeqCst);
        }
        LARGEST.fetch_max(size, SeqCst);
        N_ALLOCS.fetch_add(1, std::sync::atomic::Ordering::Relaxed);
    }
    /// async-signal-safe, allocation-free note on stderr
    fn on_fail(size: usize) {
        let mut buf = [0u8; 64];
        let mut n = 0;
        for b in ALLOC_FAIL_MARK.as_bytes() {
            buf[n] = *b;
            n += 1;
        }
        let mut digits = [0u8; 24];
        let mut d = 0;
        let mut v = size;
        loop {
            digits[d] = b'0' + (v % 10) as u8;
            d += 1;
            v /= 10;
            if v == 0 {
                break;
            }
        }
        while d > 0 {
            d -= 1;
            buf[n] = digits[d];
            n += 1;
        }
        buf[n] = b'\n';
        n += 1;
        unsafe {
            libc::write(2, buf.as_ptr() as *const libc::c_void, n);
        }
    }
}

unsafe impl GlobalAlloc for CountingAlloc {
    unsafe fn alloc(&self, l: Layout) -> *mut u8 {
        Self::on_request(l.size());
        let p = System.alloc(l);
        if p.is_null() {
            Self::on_fail(l.size());
        } else {
            Self::on_grow(l.size());
        }
        p
    }
    unsafe fn alloc_zeroed(&self, l: Layout) -> *mut u8 {
        Self::on_request(l.size());
        let p = System.alloc_zeroed(l);
        if p.is_null() {
            Self::on_fail(l.size());
        } else {
            Self::on_grow(l.size());
        }
        p
    }
    unsafe fn dealloc(&self, p: *mut u8, l: Layout) {
        System.dealloc(p, l);
        LIVE.fetch_sub(l.size(), SeqCst);
    }
    unsafe fn realloc(&self, p: *mut u8, l: Layout, new_size: usize) -> *mut u8 {
        Self::on_request(new_size);
        let q = System.realloc(p, l, new_size);
        if q.is_null() {
            Self::on_fail(new_size);
        } else if new_size >= l.size() {
            Self::on_grow(new_size - l.size());
        } else {
            LIVE.fetch_sub(l.size() - new_size, SeqCst);
        }
        q
    }
}

/// Installs [`CountingAlloc`] as the global allocator of the *binary* that invokes it (no-op when
/// built with `--cfg mzv_no_counting_alloc`, for sanitizer builds).
#[macro_export]
macro_rules! install_counting_allocator {
    () => {
        #[cfg(not(mzv_no_counting_alloc))]
        #[global_allocator]
        static MZV_GLOBAL_ALLOCATOR: $crate::engines::totality::CountingAlloc =
            $crate::engines::totality::CountingAlloc;
    };
}

#[derive(Clone, Copy, Debug, Default)]
pub struct AllocStats {
    /// peak live bytes during the closure, above the live bytes at its start
    pub peak: usize,
    /// largest single request during the closure
    pub largest: usize,
    /// number of allocation requests during the closure
    pub requests: u64,
    /// false when the binary did not install the counting allocator (numbers are zero then)
    pub installed: bool,
}

/// Runs `f` and reports its allocation profile. Process-wide lock: measured closures never overlap.
pub fn measure<T>(f: impl FnOnce() -> T) -> (T, AllocStats) {
    let _g = MEASURE_LOCK.lock().unwrap_or_else(|e| e.into_inner());
    let base = LIVE.load(SeqCst);
    PEAK.store(base, SeqCst);
    LARGEST.store(0, SeqCst);
    let n0 = N_ALLOCS.load(SeqCst);
    let r = f();
    let stats = AllocStats {
        peak: PEAK.load(SeqCst).saturating_sub(base),
        largest: LARGEST.load(SeqCst),
        requests: N_ALLOCS.load(SeqCst) - n0,
        installed: INSTALLED.load(SeqCst),
    };
    (r, stats)
}

pub fn allocator_installed() -> bool {
    // any allocation at all flips the flag; make sure one happened
    let v = std::hint::black_box(vec![0u8; 32]);
    drop(v);
    INSTALLED.load(SeqCst)
}

/// The allocation bound of DESIGN §5 C16: `64·len(input) + honest peak + 16 MiB`.
pub fn alloc_bound(input_len: usize, honest_peak: usize) -> usize {
    64usize.saturating_mul(input_len).saturating_add(honest_peak).saturating_add(16 << 20)
}

// ---------------------------------------------------------------------------------------------
// 2. units, verdicts
// ---------------------------------------------------------------------------------------------

/// A unit of work: the cases `(id, i)` for `lo <= i < hi`; `body` is opaque to the engine.
#[derive(Clone, Debug)]
pub struct Unit {
    pub id: u64,
    pub lo: u64,
    pub hi: u64,
    pub body: Json,
}

impl Unit {
    pub fn cases(&self) -> u64 {
        self.hi.saturating_sub(self.lo)
    }
    fn to_line(&self) -> String {
        json!({"id": self.id, "lo": self.lo, "hi": self.hi, "body": self.body}).to_string()
    }
    fn from_line(s: &str) -> Option<Unit> {
        let j: Json = serde_json::from_str(s).ok()?;
        Some(Unit {
            id: j.get("id")?.as_u64()?,
            lo: j.get("lo")?.as_u64()?,
            hi: j.get("hi")?.as_u64()?,
            body: j.get("body")?.clone(),
        })
    }
}

#[derive(Clone, Debug, PartialEq)]
pub enum Verdict {
    Ok,
    Err,
    /// a panic that escaped the binary's own stage-wise catches
    Panic(PanicInfo),
    /// the child died on this case: signal number (or negative exit code), text of the stderr tail
    Abort { signal: i32, stderr_tail: String },
    /// peak live bytes over the bound (`aborted`: the allocator refused and the process aborted)
    Alloc { peak: usize, largest: usize, input_len: usize, bound: usize, aborted: bool },
    /// per-case fence fired — inconclusive, never a violation
    Hang,
}

impl Verdict {
    pub fn tag(&self) -> &'static str {
        match self {
            Verdict::Ok => "ok",
            Verdict::Err => "err",
            Verdict::Panic(_) => "panic",
            Verdict::Abort { .. } => "abort",
            Verdict::Alloc { .. } => "alloc",
            Verdict::Hang => "hang",
        }
    }
}

/// What the binary's runner returns for a case it survived.
#[derive(Clone, Debug, Default)]
pub struct CaseReport {
    /// did the (first-stage) decode return a value (`true`) or an error value (`false`)
    pub ok: bool,
    /// length of the untrusted input of this case (for the allocation bound)
    pub input_len: usize,
    /// free-form events (stage-wise caught panics, oracle findings, counters); must be small
    pub events: Vec<Json>,
}

/// The binary's side of the child process.
pub trait ChildRunner {
    /// Peak live bytes of the honest counterpart of this unit's cases (measured by the runner with
    /// [`measure`] and cached). Called outside any measurement.
    fn baseline(&mut self, unit: &Unit) -> usize;
    /// Runs case `(unit, idx)`. Stage-wise panics should be caught by the runner and reported as
    /// events; a panic that escapes is caught by the engine and becomes `Verdict::Panic`.
    /// `stage` may be called to leave a breadcrumb (written to the results file at once) before a
    /// stage that may kill the process.
    fn run(&mut self, unit: &Unit, idx: u64, stage: &mut dyn FnMut(&str)) -> CaseReport;
}

#[derive(Clone, Debug)]
pub struct CaseResult {
    pub unit: u64,
    pub idx: u64,
    pub verdict: Verdict,
    pub peak: usize,
    pub largest: usize,
    pub input_len: usize,
    pub baseline: usize,
    /// wall time of the case inside the child, microseconds (0 when the child died)
    pub micros: u64,
    /// last stage breadcrumb written before the verdict (for Abort/Hang: where the child died)
    pub stage: String,
    pub events: Vec<Json>,
}

// ---------------------------------------------------------------------------------------------
// 3. child side
// ---------------------------------------------------------------------------------------------

pub const DEFAULT_RLIMIT_AS: u64 = 8 << 30;

pub fn apply_rlimit_as(bytes: u64) -> bool {
    let lim = libc::rlimit {
        rlim_cur: bytes as libc::rlim_t,
        rlim_max: bytes as libc::rlim_t,
    };
    unsafe { libc::setrlimit(libc::RLIMIT_AS, &lim) == 0 }
}

fn read_units(path: &Path) -> Vec<Unit> {
    let f = match std::fs::File::open(path) {
        Ok(f) => f,
        Err(_) => return vec![],
    };
    BufReader::new(f).lines().map_while(Result::ok).filter_map(|l| Unit::from_line(&l)).collect()
}

/// Entry point of the child process (`--child <shard> --results <file> [--resume-unit U
/// --resume-idx I] [--rlimit-as BYTES]`, taken from `extra`). Never returns.
pub fn child_main(extra: &std::collections::BTreeMap<String, String>, runner: &mut dyn ChildRunner) -> ! {
    let shard = PathBuf::from(extra.get("child").cloned().unwrap_or_default());
    let results = PathBuf::from(extra.get("results").cloned().unwrap_or_default());
    let resume: Option<(u64, u64)> = match (
        extra.get("resume-unit").and_then(|s| s.parse().ok()),
        extra.get("resume-idx").and_then(|s| s.parse().ok()),
    ) {
        (Some(u), Some(i)) => Some((u, i)),
        _ => None,
    };
    let rlimit = extra.get("rlimit-as").and_then(|s| s.parse().ok()).unwrap_or(DEFAULT_RLIMIT_AS);
    let rlimit_ok = if rlimit > 0 { apply_rlimit_as(rlimit) } else { true };

    let units = read_units(&shard);
    let mut out = match std::fs::OpenOptions::new().create(true).append(true).open(&results) {
        Ok(f) => f,
        Err(e) => {
            eprintln!("child: cannot open results file {}: {e}", results.display());
            std::process::exit(3);
        }
    };
    let _ = writeln!(
        out,
        "{}",
        json!({"hello": true, "rlimit_ok": rlimit_ok, "alloc": allocator_installed(), "units": units.len()})
    );

    // `resume` = the killer of the previous incarnation: skip everything up to and including it
    let out = std::cell::RefCell::new(out);
    let mut skipping = resume.is_some();
    for unit in &units {
        let mut baseline: Option<usize> = None;
        for idx in unit.lo..unit.hi {
            if skipping {
                if Some((unit.id, idx)) == resume {
                    skipping = false;
                }
                continue;
            }
            let base = match baseline {
                Some(b) => b,
                None => {
                    // the honest counterpart may itself crash: leave a breadcrumb first
                    let _ = writeln!(out.borrow_mut(), "{}", json!({"u": unit.id, "i": idx, "st": "baseline"}));
                    let b = catch_any(|| runner.baseline(unit)).unwrap_or(0);
                    baseline = Some(b);
                    let _ = writeln!(out.borrow_mut(), "{}", json!({"u": unit.id, "i": idx, "st": "", "bs": b}));
                    b
                }
            };
            let t_case = Instant::now();
            let mut stage_sink = |s: &str| {
                let _ = writeln!(out.borrow_mut(), "{}", json!({"u": unit.id, "i": idx, "st": s}));
            };
            let (r, stats) = measure(|| catch_any(|| runner.run(unit, idx, &mut stage_sink)));
            let mut line = serde_json::Map::new();
            line.insert("u".into(), json!(unit.id));
            line.insert("i".into(), json!(idx));
            line.insert("pk".into(), json!(stats.peak));
            line.insert("us".into(), json!(t_case.elapsed().as_micros() as u64));
            match r {
                Ok(rep) => {
                    let bound = alloc_bound(rep.input_len, base);
                    let over = stats.installed && stats.peak > bound;
                    line.insert("s".into(), json!(if over { "A" } else if rep.ok { "K" } else { "E" }));
                    line.insert("n".into(), json!(rep.input_len));
                    if over {
                        line.insert("lg".into(), json!(stats.largest));
                        line.insert("bd".into(), json!(bound));
                        line.insert("bs".into(), json!(base));
                    }
                    if !rep.events.is_empty() {
                        line.insert("ev".into(), Json::Array(rep.events));
                    }
                }
                Err(p) => {
                    line.insert("s".into(), json!("P"));
                    line.insert("msg".into(), json!(p.message));
                    line.insert("loc".into(), json!(p.location));
                    line.insert("file".into(), json!(p.file));
                }
            }
            let _ = writeln!(out.borrow_mut(), "{}", Json::Object(line));
        }
    }
    let mut out = out.into_inner();
    let _ = writeln!(out, "{}", json!({"done": true}));
    let _ = out.flush();
    std::process::exit(0);
}

// ---------------------------------------------------------------------------------------------
// 4. parent side
// ---------------------------------------------------------------------------------------------

#[derive(Clone, Debug)]
pub struct ParentCfg {
    /// concurrent children
    pub max_children: usize,
    /// `RLIMIT_AS` applied by each child (0 = none)
    pub rlimit_as: u64,
    /// no new result line for this long ⇒ kill the child, pending case = `Hang`
    pub fence_secs: u64,
    /// fence for shards that contain a unit whose body has `"fence": "short"` (cases known to be
    /// able to run for a time proportional to a declared size)
    pub short_fence_secs: u64,
    /// directory for shard / result / stderr files
    pub scratch: PathBuf,
    /// arguments passed through to every child (`--seed`, `--tier`, corpus path, ...)
    pub child_args: Vec<String>,
    /// environment for children (e.g. `RAYON_NUM_THREADS`)
    pub child_env: Vec<(String, String)>,
    /// a shard that needed more restarts than this is abandoned (remaining cases unreported)
    pub max_restarts_per_shard: u64,
}

#[derive(Clone, Debug, Default)]
pub struct ParentStats {
    pub children_spawned: u64,
    pub restarts: u64,
    pub cases_reported: u64,
    pub cases_unreported: u64,
    pub abandoned_shards: u64,
    pub rlimit_failures: u64,
    pub allocator_missing: u64,
    pub notes: Vec<String>,
    /// (shard number, cases, wall seconds)
    pub shard_secs: Vec<(usize, u64, f64)>,
}

/// `<dir of current_exe>/../scratch/<name>-<pid>` (i.e. `/verif/target*/scratch/...`).
pub fn scratch_dir(name: &str) -> PathBuf {
    let exe = std::env::current_exe().unwrap_or_else(|_| PathBuf::from("/verif/target/release/x"));
    let base = exe.parent().and_then(|p| p.parent()).map(|p| p.to_path_buf()).unwrap_or_else(|| PathBuf::from("/verif/target"));
    let d = base.join("scratch").join(format!("{name}-{}", std::process::id()));
    let _ = std::fs::create_dir_all(&d);
    d
}

pub fn remove_scratch(dir: &Path) {
    let _ = std::fs::remove_dir_all(dir);
}

fn next_case(units: &[Unit], after: Option<(u64, u64)>) -> Option<(u64, u64)> {
    // first case in shard order strictly after `after` (None = the very first case)
    let mut passed = after.is_none();
    for u in units {
        for i in u.lo..u.hi {
            if passed {
                return Some((u.id, i));
            }
            if Some((u.id, i)) == after {
                passed = true;
            }
        }
    }
    None
}

struct Parsed {
    results: Vec<CaseResult>,
    last_done: Option<(u64, u64)>,
    /// breadcrumbs seen after the last completed case: (unit, idx, stage)
    pending_stage: Option<(u64, u64, String)>,
    done: bool,
    hello: Option<Json>,
}

fn parse_results(text: &str, baselines: &mut std::collections::HashMap<u64, usize>) -> Parsed {
    let mut p = Parsed { results: vec![], last_done: None, pending_stage: None, done: false, hello: None };
    for l in text.lines() {
        let j: Json = match serde_json::from_str(l) {
            Ok(j) => j,
            Err(_) => continue, // a torn last line
        };
        if j.get("done").is_some() {
            p.done = true;
            continue;
        }
        if j.get("hello").is_some() {
            p.hello = Some(j);
            continue;
        }
        let (u, i) = match (j.get("u").and_then(|x| x.as_u64()), j.get("i").and_then(|x| x.as_u64())) {
            (Some(u), Some(i)) => (u, i),
            _ => continue,
        };
        if let Some(st) = j.get("st").and_then(|x| x.as_str()) {
            if let Some(b) = j.get("bs").and_then(|x| x.as_u64()) {
                baselines.insert(u, b as usize);
            }
            p.pending_stage = Some((u, i, st.to_string()));
            continue;
        }
        let s = j.get("s").and_then(|x| x.as_str()).unwrap_or("?");
        let peak = j.get("pk").and_then(|x| x.as_u64()).unwrap_or(0) as usize;
        let input_len = j.get("n").and_then(|x| x.as_u64()).unwrap_or(0) as usize;
        let largest = j.get("lg").and_then(|x| x.as_u64()).unwrap_or(0) as usize;
        if let Some(b) = j.get("bs").and_then(|x| x.as_u64()) {
            baselines.insert(u, b as usize);
        }
        let verdict = match s {
            "K" => Verdict::Ok,
            "E" => Verdict::Err,
            "A" => Verdict::Alloc {
                peak,
                largest,
                input_len,
                bound: j.get("bd").and_then(|x| x.as_u64()).unwrap_or(0) as usize,
                aborted: false,
            },
            "P" => Verdict::Panic(PanicInfo {
                message: j.get("msg").and_then(|x| x.as_str()).unwrap_or("").to_string(),
                location: j.get("loc").and_then(|x| x.as_str()).unwrap_or("?").to_string(),
                file: j.get("file").and_then(|x| x.as_str()).unwrap_or("?").to_string(),
            }),
            _ => continue,
        };
        let stage = match &p.pending_stage {
            Some((su, si, st)) if *su == u && *si == i => st.clone(),
            _ => String::new(),
        };
        p.results.push(CaseResult {
            unit: u,
            idx: i,
            verdict,
            peak,
            largest,
            input_len,
            baseline: baselines.get(&u).copied().unwrap_or(0),
            micros: j.get("us").and_then(|x| x.as_u64()).unwrap_or(0),
            stage,
            events: j.get("ev").and_then(|x| x.as_array()).cloned().unwrap_or_default(),
        });
        p.last_done = Some((u, i));
        p.pending_stage = None;
    }
    p
}

fn tail(path: &Path, max: usize) -> String {
    let mut s = String::new();
    if let Ok(mut f) = std::fs::File::open(path) {
        let len = f.metadata().map(|m| m.len()).unwrap_or(0);
        let _ = f.seek(SeekFrom::Start(len.saturating_sub(max as u64)));
        let mut b = vec![];
        let _ = f.read_to_end(&mut b);
        s = String::from_utf8_lossy(&b).to_string();
    }
    s
}

enum ChildEnd {
    Exited(std::process::ExitStatus),
    Fenced,
    SpawnFailed(String),
}

/// Runs one shard to completion (with restarts). `sink` receives every case result in order.
fn run_shard(
    cfg: &ParentCfg,
    shard_no: usize,
    units: &[Unit],
    sink: &Mutex<&mut (dyn FnMut(CaseResult) + Send)>,
    stats: &Mutex<ParentStats>,
) {
    let shard_file = cfg.scratch.join(format!("shard-{shard_no}.jsonl"));
    {
        let mut f = match std::fs::File::create(&shard_file) {
            Ok(f) => f,
            Err(e) => {
                stats.lock().unwrap().notes.push(format!("cannot write shard file: {e}"));
                stats.lock().unwrap().abandoned_shards += 1;
                return;
            }
        };
        for u in units {
            let _ = writeln!(f, "{}", u.to_line());
        }
    }
    let total: u64 = units.iter().map(|u| u.cases()).sum();
    let t_shard = Instant::now();
    let fence_secs = if units.iter().any(|u| u.body.get("fence").and_then(|x| x.as_str()) == Some("short")) {
        cfg.short_fence_secs
    } else {
        cfg.fence_secs
    };
    let mut reported: u64 = 0;
    let mut resume: Option<(u64, u64)> = None; // last case that must be skipped
    let mut restarts = 0u64;
    let mut baselines = std::collections::HashMap::new();
    let exe = std::env::current_exe().expect("current_exe");

    loop {
        if next_case(units, resume).is_none() {
            break;
        }
        let res_file = cfg.scratch.join(format!("res-{shard_no}-{restarts}.jsonl"));
        let err_file = cfg.scratch.join(format!("err-{shard_no}-{restarts}.txt"));
        let _ = std::fs::remove_file(&res_file);
        let mut cmd = Command::new(&exe);
        cmd.args(&cfg.child_args)
            .arg("--child")
            .arg(&shard_file)
            .arg("--results")
            .arg(&res_file)
            .arg("--rlimit-as")
            .arg(cfg.rlimit_as.to_string());
        if let Some((u, i)) = resume {
            cmd.arg("--resume-unit").arg(u.to_string()).arg("--resume-idx").arg(i.to_string());
        }
        for (k, v) in &cfg.child_env {
            cmd.env(k, v);
        }
        cmd.stdin(Stdio::null()).stdout(Stdio::null());
        match std::fs::File::create(&err_file) {
            Ok(f) => {
                cmd.stderr(Stdio::from(f));
            }
            Err(_) => {
                cmd.stderr(Stdio::null());
            }
        }
        stats.lock().unwrap().children_spawned += 1;
        let end = match cmd.spawn() {
            Err(e) => ChildEnd::SpawnFailed(e.to_string()),
            Ok(mut child) => {
                let mut last_len = 0u64;
                let mut last_progress = Instant::now();
                loop {
                    match child.try_wait() {
                        Ok(Some(st)) => break ChildEnd::Exited(st),
                        Ok(None) => {}
                        Err(e) => break ChildEnd::SpawnFailed(format!("wait: {e}")),
                    }
                    std::thread::sleep(Duration::from_millis(25));
                    let len = std::fs::metadata(&res_file).map(|m| m.len()).unwrap_or(0);
                    if len != last_len {
                        last_len = len;
                        last_progress = Instant::now();
                    } else if last_progress.elapsed() > Duration::from_secs(fence_secs) {
                        let _ = child.kill();
                        let _ = child.wait();
                        break ChildEnd::Fenced;
                    }
                }
            }
        };

        let text = std::fs::read_to_string(&res_file).unwrap_or_default();
        let parsed = parse_results(&text, &mut baselines);
        if let Some(h) = &parsed.hello {
            let mut s = stats.lock().unwrap();
            if h.get("rlimit_ok").and_then(|x| x.as_bool()) == Some(false) {
                s.rlimit_failures += 1;
            }
            if h.get("alloc").and_then(|x| x.as_bool()) == Some(false) {
                s.allocator_missing += 1;
            }
        }
        let n_new = parsed.results.len() as u64;
        {
            let mut g = sink.lock().unwrap();
            for r in parsed.results {
                (*g)(r);
            }
        }
        reported += n_new;
        let last = parsed.last_done.or(resume);

        if parsed.done {
            break;
        }
        // the child died (or was fenced): attribute to the first case without a result
        let killer = next_case(units, last);
        let Some((ku, ki)) = killer else { break };
        let stage = match &parsed.pending_stage {
            Some((su, si, st)) if *su == ku && *si == ki => st.clone(),
            _ => String::new(),
        };
        let err_tail = tail(&err_file, 2000);
        if stage == "baseline" {
            // the *honest* counterpart killed the child: a harness-level problem, not a finding.
            // Skip the rest of this unit chunk (its cases stay unreported => inconclusive).
            let hi = units.iter().find(|u| u.id == ku && u.lo <= ki && ki < u.hi).map(|u| u.hi).unwrap_or(ki + 1);
            let mut s = stats.lock().unwrap();
            s.notes.push(format!(
                "shard {shard_no}: child died while measuring the honest baseline of unit {ku} ({}); unit skipped",
                err_tail.lines().last().unwrap_or("")
            ));
            drop(s);
            resume = Some((ku, hi - 1));
            restarts += 1;
            stats.lock().unwrap().restarts += 1;
            if restarts > cfg.max_restarts_per_shard {
                break;
            }
            continue;
        }
        let verdict = match &end {
            ChildEnd::Fenced => Verdict::Hang,
            ChildEnd::SpawnFailed(e) => {
                let mut s = stats.lock().unwrap();
                s.notes.push(format!("shard {shard_no}: spawn failed: {e}"));
                s.abandoned_shards += 1;
                s.cases_unreported += total - reported;
                return;
            }
            ChildEnd::Exited(st) => {
                use std::os::unix::process::ExitStatusExt;
                let signal = st.signal().unwrap_or_else(|| -(st.code().unwrap_or(0)));
                if let Some(pos) = err_tail.rfind(ALLOC_FAIL_MARK) {
                    let size: usize = err_tail[pos + ALLOC_FAIL_MARK.len()..]
                        .chars()
                        .take_while(|c| c.is_ascii_digit())
                        .collect::<String>()
                        .parse()
                        .unwrap_or(0);
                    Verdict::Alloc { peak: size, largest: size, input_len: 0, bound: 0, aborted: true }
                } else {
                    let n = err_tail.chars().count();
                    Verdict::Abort { signal, stderr_tail: err_tail.chars().skip(n.saturating_sub(600)).collect() }
                }
            }
        };
        {
            let mut g = sink.lock().unwrap();
            (*g)(CaseResult {
                unit: ku,
                idx: ki,
                verdict,
                peak: 0,
                largest: 0,
                input_len: 0,
                baseline: baselines.get(&ku).copied().unwrap_or(0),
                micros: 0,
                stage,
                events: vec![],
            });
        }
        reported += 1;
        resume = Some((ku, ki));
        restarts += 1;
        stats.lock().unwrap().restarts += 1;
        if restarts > cfg.max_restarts_per_shard {
            let mut s = stats.lock().unwrap();
            s.notes.push(format!("shard {shard_no}: more than {} restarts, abandoned", cfg.max_restarts_per_shard));
            s.abandoned_shards += 1;
            break;
        }
    }
    let mut s = stats.lock().unwrap();
    s.cases_reported += reported;
    s.cases_unreported += total.saturating_sub(reported);
    s.shard_secs.push((shard_no, total, t_shard.elapsed().as_secs_f64()));
}

/// Runs all shards with at most `cfg.max_children` children at a time. Shards are started in the
/// given order (put the long ones first).
pub fn run_shards(
    cfg: &ParentCfg,
    shards: Vec<Vec<Unit>>,
    sink: &mut (dyn FnMut(CaseResult) + Send),
) -> ParentStats {
    let _ = std::fs::create_dir_all(&cfg.scratch);
    let stats = Mutex::new(ParentStats::default());
    let queue: Arc<Mutex<VecDeque<(usize, Vec<Unit>)>>> =
        Arc::new(Mutex::new(shards.into_iter().enumerate().collect()));
    let sink = Mutex::new(sink);
    std::thread::scope(|scope| {
        for _ in 0..cfg.max_children.max(1) {
            let queue = queue.clone();
            let sink = &sink;
            let stats = &stats;
            scope.spawn(move || loop {
                let job = queue.lock().unwrap().pop_front();
                let Some((no, units)) = job else { break };
                run_shard(cfg, no, &units, sink, stats);
            });
        }
    });
    stats.into_inner().unwrap()
}

/// Splits units into shards of roughly `target_cases` cases each (a unit is split when larger).
pub fn shard_units(units: Vec<Unit>, target_cases: u64) -> Vec<Vec<Unit>> {
    let target = target_cases.max(1);
    let mut shards = vec![];
    let mut cur: Vec<Unit> = vec![];
    let mut cur_n = 0u64;
    for u in units {
        let mut lo = u.lo;
        while lo < u.hi {
            let room = target - cur_n;
            let take = room.min(u.hi - lo);
            cur.push(Unit { id: u.id, lo, hi: lo + take, body: u.body.clone() });
            cur_n += take;
            lo += take;
            if cur_n >= target {
                shards.push(std::mem::take(&mut cur));
                cur_n = 0;
            }
        }
    }
    if !cur.is_empty() {
        shards.push(cur);
    }
    shards
}
