//! engine: totality (see DESIGN.md §4)
