//! mzv — runtime monitors for midnight-zk (see /verif/DESIGN.md).
pub mod common;
pub mod refs;
pub mod engines;
