//! reference model: curve (see DESIGN.md §4 E7)
//!
//! Deliberately naive affine group laws over `BigUint` coordinates with an explicit identity:
//! short Weierstrass `y² = x³ + a·x + b` and twisted Edwards `a·x² + y² = 1 + d·x²·y²`, generic
//! over a small reference field (`PrimeF` = F_p, `QuadF` = F_p[u]/(u²+1)). Scalar multiplication
//! is MSB-first double-and-add on affine points. The byte-level reference codecs of the encodings
//! used by the exported curve types (ZCash BLS12-381 format, halo2curves "two spare bits" format,
//! Jubjub / RFC 8032 Edwards format, SEC1 compressed) live here as well.
//!
//! Nothing in this file calls into the library under test. The curve constants are the published
//! ones (IETF pairing-friendly-curves draft, SEC 2, EIP-196/197, Zcash protocol spec, RFC 7748 /
//! RFC 8032); `c11` cross-checks them against what the library exposes.
//!
//! The small amount of prime-field arithmetic needed is private to this file on purpose
//! (`refs::field` is written independently for C10).

use std::fmt::Debug;
use std::hash::Hash;

use num_bigint::BigUint;
use num_traits::{One, Zero};

pub type Big = BigUint;

pub fn big_hex(s: &str) -> Big {
    let s: String = s.chars().filter(|c| !c.is_whitespace() && *c != '_').collect();
    Big::parse_bytes(s.trim_start_matches("0x").as_bytes(), 16).expect("hex constant")
}
pub fn big_dec(s: &str) -> Big {
    Big::parse_bytes(s.as_bytes(), 10).expect("decimal constant")
}
pub fn big_u(v: u64) -> Big {
    Big::from(v)
}

/// big-endian, left padded to `n` bytes (panics if it does not fit: harness bug)
pub fn be_bytes(v: &Big, n: usize) -> Vec<u8> {
    let b = v.to_bytes_be();
    assert!(b.len() <= n, "value does not fit in {n} bytes");
    let mut out = vec![0u8; n - b.len()];
    out.extend_from_slice(&b);
    out
}
pub fn le_bytes(v: &Big, n: usize) -> Vec<u8> {
    let mut b = be_bytes(v, n);
    b.reverse();
    b
}

// ---------------------------------------------------------------------------------------------
// Reference fields
// ---------------------------------------------------------------------------------------------

pub trait RField: Clone + Send + Sync {
    type El: Clone + PartialEq + Eq + Debug + Hash + Send + Sync;
    fn p(&self) -> &Big;
    fn zero(&self) -> Self::El;
    fn one(&self) -> Self::El;
    fn from_u64(&self, v: u64) -> Self::El;
    fn is_zero(&self, a: &Self::El) -> bool;
    fn add(&self, a: &Self::El, b: &Self::El) -> Self::El;
    fn sub(&self, a: &Self::El, b: &Self::El) -> Self::El;
    fn neg(&self, a: &Self::El) -> Self::El;
    fn mul(&self, a: &Self::El, b: &Self::El) -> Self::El;
    fn sqr(&self, a: &Self::El) -> Self::El {
        self.mul(a, a)
    }
    fn inv(&self, a: &Self::El) -> Option<Self::El>;
    fn is_square(&self, a: &Self::El) -> bool;
    fn sqrt(&self, a: &Self::El) -> Option<Self::El>;
    /// number of bytes of one serialized element
    fn byte_len(&self) -> usize;
    /// `be = true`: big-endian, highest-degree coefficient first (ZCash / blst convention);
    /// `be = false`: little-endian, lowest-degree coefficient first (halo2curves convention).
    fn ser(&self, a: &Self::El, be: bool) -> Vec<u8>;
    /// canonical only (every coefficient `< p`); wrong length ⇒ `None`
    fn de(&self, bytes: &[u8], be: bool) -> Option<Self::El>;
    /// like `de` but coefficients are taken as integers without the range check
    fn de_raw(&self, bytes: &[u8], be: bool) -> Vec<Big>;
    /// ZCash "lexicographically largest" (used as the sign of y in the BLS12-381 encodings)
    fn lex_largest(&self, a: &Self::El) -> bool;
    /// parity of the lowest-degree coefficient (sign convention of halo2curves, SEC1, Edwards)
    fn is_odd(&self, a: &Self::El) -> bool;
    fn hex(&self, a: &Self::El) -> String;
    fn div(&self, a: &Self::El, b: &Self::El) -> Option<Self::El> {
        self.inv(b).map(|bi| self.mul(a, &bi))
    }
}

#[derive(Clone, Debug)]
pub struct PrimeF {
    pub p: Big,
    nbytes: usize,
}

impl PrimeF {
    pub fn new(p: Big) -> Self {
        let nbytes = ((p.bits() + 7) / 8) as usize;
        PrimeF { p, nbytes }
    }
    pub fn el(&self, v: &Big) -> Big {
        v % &self.p
    }
    fn half(&self) -> Big {
        (&self.p - 1u32) >> 1
    }
}

fn legendre_is_qr(a: &Big, p: &Big) -> bool {
    if a.is_zero() {
        return true;
    }
    a.modpow(&((p - 1u32) >> 1), p).is_one()
}

/// Tonelli–Shanks; returns some root (caller fixes the sign)
fn sqrt_mod_p(a: &Big, p: &Big) -> Option<Big> {
    let a = a % p;
    if a.is_zero() {
        return Some(Big::zero());
    }
    if !legendre_is_qr(&a, p) {
        return None;
    }
    if (p % 4u32) == big_u(3) {
        let r = a.modpow(&((p + 1u32) >> 2), p);
        return Some(r);
    }
    // p - 1 = q * 2^s
    let mut q = p - 1u32;
    let mut s = 0u32;
    while (&q & Big::one()).is_zero() {
        q >>= 1;
        s += 1;
    }
    let mut z = big_u(2);
    while legendre_is_qr(&z, p) {
        z += 1u32;
    }
    let mut m = s;
    let mut c = z.modpow(&q, p);
    let mut t = a.modpow(&q, p);
    let mut r = a.modpow(&((&q + 1u32) >> 1), p);
    while !t.is_one() {
        let mut i = 0u32;
        let mut tt = t.clone();
        while !tt.is_one() {
            tt = (&tt * &tt) % p;
            i += 1;
            if i == m {
                return None;
            }
        }
        let b = c.modpow(&(Big::one() << (m - i - 1) as usize), p);
        m = i;
        c = (&b * &b) % p;
        t = (&t * &c) % p;
        r = (&r * &b) % p;
    }
    Some(r)
}

impl RField for PrimeF {
    type El = Big;
    fn p(&self) -> &Big {
        &self.p
    }
    fn zero(&self) -> Big {
        Big::zero()
    }
    fn one(&self) -> Big {
        Big::one()
    }
    fn from_u64(&self, v: u64) -> Big {
        big_u(v) % &self.p
    }
    fn is_zero(&self, a: &Big) -> bool {
        a.is_zero()
    }
    fn add(&self, a: &Big, b: &Big) -> Big {
        (a + b) % &self.p
    }
    fn sub(&self, a: &Big, b: &Big) -> Big {
        ((a + &self.p) - (b % &self.p)) % &self.p
    }
    fn neg(&self, a: &Big) -> Big {
        (&self.p - (a % &self.p)) % &self.p
    }
    fn mul(&self, a: &Big, b: &Big) -> Big {
        (a * b) % &self.p
    }
    fn inv(&self, a: &Big) -> Option<Big> {
        if (a % &self.p).is_zero() {
            None
        } else {
            a.modinv(&self.p)
        }
    }
    fn is_square(&self, a: &Big) -> bool {
        legendre_is_qr(&(a % &self.p), &self.p)
    }
    fn sqrt(&self, a: &Big) -> Option<Big> {
        let r = sqrt_mod_p(a, &self.p)?;
        debug_assert_eq!(self.mul(&r, &r), a % &self.p);
        Some(r)
    }
    fn byte_len(&self) -> usize {
        self.nbytes
    }
    fn ser(&self, a: &Big, be: bool) -> Vec<u8> {
        if be {
            be_bytes(a, self.nbytes)
        } else {
            le_bytes(a, self.nbytes)
        }
    }
    fn de(&self, bytes: &[u8], be: bool) -> Option<Big> {
        if bytes.len() != self.nbytes {
            return None;
        }
        let v = if be { Big::from_bytes_be(bytes) } else { Big::from_bytes_le(bytes) };
        (v < self.p).then_some(v)
    }
    fn de_raw(&self, bytes: &[u8], be: bool) -> Vec<Big> {
        vec![if be { Big::from_bytes_be(bytes) } else { Big::from_bytes_le(bytes) }]
    }
    fn lex_largest(&self, a: &Big) -> bool {
        *a > self.half()
    }
    fn is_odd(&self, a: &Big) -> bool {
        a.bit(0)
    }
    fn hex(&self, a: &Big) -> String {
        format!("{a:x}")
    }
}

/// F_p[u]/(u² + 1); requires p ≡ 3 (mod 4) (true for BLS12-381 and BN254 base fields).
#[derive(Clone, Debug)]
pub struct QuadF {
    pub base: PrimeF,
}

impl QuadF {
    pub fn new(p: Big) -> Self {
        assert_eq!(&p % 4u32, big_u(3), "QuadF needs p = 3 mod 4 (u^2 = -1 non-residue)");
        QuadF { base: PrimeF::new(p) }
    }
    pub fn el(&self, c0: &Big, c1: &Big) -> (Big, Big) {
        (c0 % &self.base.p, c1 % &self.base.p)
    }
    fn norm(&self, a: &(Big, Big)) -> Big {
        let f = &self.base;
        f.add(&f.mul(&a.0, &a.0), &f.mul(&a.1, &a.1))
    }
}

impl RField for QuadF {
    type El = (Big, Big);
    fn p(&self) -> &Big {
        &self.base.p
    }
    fn zero(&self) -> (Big, Big) {
        (Big::zero(), Big::zero())
    }
    fn one(&self) -> (Big, Big) {
        (Big::one(), Big::zero())
    }
    fn from_u64(&self, v: u64) -> (Big, Big) {
        (self.base.from_u64(v), Big::zero())
    }
    fn is_zero(&self, a: &(Big, Big)) -> bool {
        a.0.is_zero() && a.1.is_zero()
    }
    fn add(&self, a: &(Big, Big), b: &(Big, Big)) -> (Big, Big) {
        (self.base.add(&a.0, &b.0), self.base.add(&a.1, &b.1))
    }
    fn sub(&self, a: &(Big, Big), b: &(Big, Big)) -> (Big, Big) {
        (self.base.sub(&a.0, &b.0), self.base.sub(&a.1, &b.1))
    }
    fn neg(&self, a: &(Big, Big)) -> (Big, Big) {
        (self.base.neg(&a.0), self.base.neg(&a.1))
    }
    fn mul(&self, a: &(Big, Big), b: &(Big, Big)) -> (Big, Big) {
        // (a0 + a1 u)(b0 + b1 u) = a0 b0 − a1 b1 + (a0 b1 + a1 b0) u     — schoolbook
        let f = &self.base;
        let c0 = f.sub(&f.mul(&a.0, &b.0), &f.mul(&a.1, &b.1));
        let c1 = f.add(&f.mul(&a.0, &b.1), &f.mul(&a.1, &b.0));
        (c0, c1)
    }
    fn inv(&self, a: &(Big, Big)) -> Option<(Big, Big)> {
        let f = &self.base;
        let n = self.norm(a);
        let ni = f.inv(&n)?;
        Some((f.mul(&a.0, &ni), f.mul(&f.neg(&a.1), &ni)))
    }
    fn is_square(&self, a: &(Big, Big)) -> bool {
        // a is a square in F_p² iff its norm is a square in F_p
        self.base.is_square(&self.norm(a))
    }
    fn sqrt(&self, a: &(Big, Big)) -> Option<(Big, Big)> {
        let f = &self.base;
        if self.is_zero(a) {
            return Some(self.zero());
        }
        if a.1.is_zero() {
            // a0 square ⇒ (√a0, 0); otherwise −a0 is a square and (√(−a0)·u)² = a0
            return match f.sqrt(&a.0) {
                Some(r) => Some((r, Big::zero())),
                None => f.sqrt(&f.neg(&a.0)).map(|r| (Big::zero(), r)),
            };
        }
        let alpha = f.sqrt(&self.norm(a))?;
        let two_inv = f.inv(&big_u(2))?;
        let mut delta = f.mul(&f.add(&a.0, &alpha), &two_inv);
        if !f.is_square(&delta) {
            delta = f.mul(&f.sub(&a.0, &alpha), &two_inv);
        }
        let x0 = f.sqrt(&delta)?;
        let x1 = f.mul(&a.1, &f.inv(&f.mul(&big_u(2), &x0))?);
        let r = (x0, x1);
        if self.mul(&r, &r) == *a {
            Some(r)
        } else {
            None
        }
    }
    fn byte_len(&self) -> usize {
        2 * self.base.nbytes
    }
    fn ser(&self, a: &(Big, Big), be: bool) -> Vec<u8> {
        let n = self.base.nbytes;
        let mut out = Vec::with_capacity(2 * n);
        if be {
            out.extend(be_bytes(&a.1, n));
            out.extend(be_bytes(&a.0, n));
        } else {
            out.extend(le_bytes(&a.0, n));
            out.extend(le_bytes(&a.1, n));
        }
        out
    }
    fn de(&self, bytes: &[u8], be: bool) -> Option<(Big, Big)> {
        if bytes.len() != self.byte_len() {
            return None;
        }
        let v = self.de_raw(bytes, be);
        (v[0] < self.base.p && v[1] < self.base.p).then(|| (v[0].clone(), v[1].clone()))
    }
    fn de_raw(&self, bytes: &[u8], be: bool) -> Vec<Big> {
        let n = self.base.nbytes;
        if be {
            vec![Big::from_bytes_be(&bytes[n..2 * n]), Big::from_bytes_be(&bytes[..n])]
        } else {
            vec![Big::from_bytes_le(&bytes[..n]), Big::from_bytes_le(&bytes[n..2 * n])]
        }
    }
    fn lex_largest(&self, a: &(Big, Big)) -> bool {
        if a.1.is_zero() {
            self.base.lex_largest(&a.0)
        } else {
            self.base.lex_largest(&a.1)
        }
    }
    fn is_odd(&self, a: &(Big, Big)) -> bool {
        a.0.bit(0)
    }
    fn hex(&self, a: &(Big, Big)) -> String {
        format!("{:x}+{:x}*u", a.0, a.1)
    }
}

// ---------------------------------------------------------------------------------------------
// Points and curves
// ---------------------------------------------------------------------------------------------

#[derive(Clone, PartialEq, Eq, Debug, Hash)]
pub enum Pt<E> {
    /// point at infinity (Weierstrass only; the Edwards identity is the affine point (0, 1))
    Inf,
    Aff(E, E),
}

impl<E> Pt<E> {
    pub fn xy(&self) -> Option<(&E, &E)> {
        match self {
            Pt::Inf => None,
            Pt::Aff(x, y) => Some((x, y)),
        }
    }
}

pub trait RCurve: Send + Sync {
    type F: RField;
    fn f(&self) -> &Self::F;
    fn identity(&self) -> Pt<<Self::F as RField>::El>;
    fn is_identity(&self, p: &Pt<<Self::F as RField>::El>) -> bool {
        *p == self.identity()
    }
    fn on_curve(&self, p: &Pt<<Self::F as RField>::El>) -> bool;
    fn neg(&self, p: &Pt<<Self::F as RField>::El>) -> Pt<<Self::F as RField>::El>;
    /// `None` iff the affine formula is undefined on these operands (only possible for operands
    /// that are not on the curve).
    fn add(
        &self,
        p: &Pt<<Self::F as RField>::El>,
        q: &Pt<<Self::F as RField>::El>,
    ) -> Option<Pt<<Self::F as RField>::El>>;
    fn sub(
        &self,
        p: &Pt<<Self::F as RField>::El>,
        q: &Pt<<Self::F as RField>::El>,
    ) -> Option<Pt<<Self::F as RField>::El>> {
        self.add(p, &self.neg(q))
    }
    fn double(&self, p: &Pt<<Self::F as RField>::El>) -> Option<Pt<<Self::F as RField>::El>> {
        self.add(p, p)
    }
    /// naive MSB-first double-and-add with the integer `k` (not reduced)
    fn mul(&self, p: &Pt<<Self::F as RField>::El>, k: &Big) -> Option<Pt<<Self::F as RField>::El>> {
        let mut acc = self.identity();
        let bits = k.bits();
        for i in (0..bits).rev() {
            acc = self.double(&acc)?;
            if k.bit(i) {
                acc = self.add(&acc, p)?;
            }
        }
        Some(acc)
    }
    fn hex(&self, p: &Pt<<Self::F as RField>::El>) -> String {
        match p {
            Pt::Inf => "inf".into(),
            Pt::Aff(x, y) => format!("({}, {})", self.f().hex(x), self.f().hex(y)),
        }
    }
}

pub type El<C> = <<C as RCurve>::F as RField>::El;
pub type PtOf<C> = Pt<El<C>>;

/// y² = x³ + a·x + b
#[derive(Clone, Debug)]
pub struct Weierstrass<F: RField> {
    pub f: F,
    pub a: F::El,
    pub b: F::El,
}

impl<F: RField> Weierstrass<F> {
    /// x³ + a·x + b
    pub fn rhs(&self, x: &F::El) -> F::El {
        let f = &self.f;
        f.add(&f.add(&f.mul(&f.sqr(x), x), &f.mul(&self.a, x)), &self.b)
    }
}

impl<F: RField> RCurve for Weierstrass<F> {
    type F = F;
    fn f(&self) -> &F {
        &self.f
    }
    fn identity(&self) -> Pt<F::El> {
        Pt::Inf
    }
    fn on_curve(&self, p: &Pt<F::El>) -> bool {
        match p {
            Pt::Inf => true,
            Pt::Aff(x, y) => self.f.sqr(y) == self.rhs(x),
        }
    }
    fn neg(&self, p: &Pt<F::El>) -> Pt<F::El> {
        match p {
            Pt::Inf => Pt::Inf,
            Pt::Aff(x, y) => Pt::Aff(x.clone(), self.f.neg(y)),
        }
    }
    fn add(&self, p: &Pt<F::El>, q: &Pt<F::El>) -> Option<Pt<F::El>> {
        let f = &self.f;
        let (x1, y1) = match p {
            Pt::Inf => return Some(q.clone()),
            Pt::Aff(x, y) => (x, y),
        };
        let (x2, y2) = match q {
            Pt::Inf => return Some(p.clone()),
            Pt::Aff(x, y) => (x, y),
        };
        let lambda = if x1 == x2 {
            if *y1 == f.neg(y2) {
                // P = −Q (this includes 2-torsion points doubled)
                return Some(Pt::Inf);
            }
            if y1 != y2 {
                // same x, y neither equal nor opposite: at least one operand is off the curve
                return None;
            }
            // tangent: (3x² + a) / (2y)
            let num = f.add(&f.mul(&f.from_u64(3), &f.sqr(x1)), &self.a);
            let den = f.add(y1, y1);
            f.div(&num, &den)?
        } else {
            f.div(&f.sub(y2, y1), &f.sub(x2, x1))?
        };
        let x3 = f.sub(&f.sub(&f.sqr(&lambda), x1), x2);
        let y3 = f.sub(&f.mul(&lambda, &f.sub(x1, &x3)), y1);
        Some(Pt::Aff(x3, y3))
    }
}

/// a·x² + y² = 1 + d·x²·y²
#[derive(Clone, Debug)]
pub struct TwistedEdwards<F: RField> {
    pub f: F,
    pub a: F::El,
    pub d: F::El,
}

impl<F: RField> TwistedEdwards<F> {
    /// x² = (y² − 1) / (d·y² − a); `None` if the denominator vanishes
    pub fn x2_from_y(&self, y: &F::El) -> Option<F::El> {
        let f = &self.f;
        let y2 = f.sqr(y);
        f.div(&f.sub(&y2, &f.one()), &f.sub(&f.mul(&self.d, &y2), &self.a))
    }
}

impl<F: RField> RCurve for TwistedEdwards<F> {
    type F = F;
    fn f(&self) -> &F {
        &self.f
    }
    fn identity(&self) -> Pt<F::El> {
        Pt::Aff(self.f.zero(), self.f.one())
    }
    fn on_curve(&self, p: &Pt<F::El>) -> bool {
        let f = &self.f;
        match p {
            Pt::Inf => false,
            Pt::Aff(x, y) => {
                let x2 = f.sqr(x);
                let y2 = f.sqr(y);
                f.add(&f.mul(&self.a, &x2), &y2) == f.add(&f.one(), &f.mul(&self.d, &f.mul(&x2, &y2)))
            }
        }
    }
    fn neg(&self, p: &Pt<F::El>) -> Pt<F::El> {
        match p {
            Pt::Inf => Pt::Inf,
            Pt::Aff(x, y) => Pt::Aff(self.f.neg(x), y.clone()),
        }
    }
    fn add(&self, p: &Pt<F::El>, q: &Pt<F::El>) -> Option<Pt<F::El>> {
        let f = &self.f;
        let (x1, y1) = p.xy()?;
        let (x2, y2) = q.xy()?;
        let x1x2 = f.mul(x1, x2);
        let y1y2 = f.mul(y1, y2);
        let t = f.mul(&self.d, &f.mul(&x1x2, &y1y2));
        let x3 = f.div(&f.add(&f.mul(x1, y2), &f.mul(y1, x2)), &f.add(&f.one(), &t))?;
        let y3 = f.div(&f.sub(&y1y2, &f.mul(&self.a, &x1x2)), &f.sub(&f.one(), &t))?;
        Some(Pt::Aff(x3, y3))
    }
}

/// A curve with its published generator, prime subgroup order and cofactor.
pub struct Spec<C: RCurve> {
    pub name: &'static str,
    pub curve: C,
    pub gen: PtOf<C>,
    pub r: Big,
    pub h: Big,
}

impl<C: RCurve> Spec<C> {
    pub fn in_subgroup(&self, p: &PtOf<C>) -> bool {
        self.curve.on_curve(p)
            && self.curve.mul(p, &self.r).map(|q| self.curve.is_identity(&q)).unwrap_or(false)
    }
    /// self-check of the constants: generator on the curve, order exactly r (r prime is trusted)
    pub fn sane(&self) -> Result<(), String> {
        if !self.curve.on_curve(&self.gen) {
            return Err(format!("{}: generator not on curve", self.name));
        }
        if self.curve.is_identity(&self.gen) {
            return Err(format!("{}: generator is the identity", self.name));
        }
        if !self.in_subgroup(&self.gen) {
            return Err(format!("{}: r * generator != identity", self.name));
        }
        Ok(())
    }
}

// ---------------------------------------------------------------------------------------------
// Published parameters
// ---------------------------------------------------------------------------------------------

pub const BLS12_381_P: &str = "1a0111ea397fe69a4b1ba7b6434bacd764774b84f38512bf6730d2a0f6b0f6241eabfffeb153ffffb9feffffffffaaab";
pub const BLS12_381_R: &str = "73eda753299d7d483339d80809a1d80553bda402fffe5bfeffffffff00000001";

pub fn bls12_381_g1() -> Spec<Weierstrass<PrimeF>> {
    let f = PrimeF::new(big_hex(BLS12_381_P));
    Spec {
        name: "BLS12-381 G1",
        curve: Weierstrass { a: Big::zero(), b: big_u(4), f },
        gen: Pt::Aff(
            big_hex("17f1d3a73197d7942695638c4fa9ac0fc3688c4f9774b905a14e3a3f171bac586c55e83ff97a1aeffb3af00adb22c6bb"),
            big_hex("08b3f481e3aaa0f1a09e30ed741d8ae4fcf5e095d5d00af600db18cb2c04b3edd03cc744a2888ae40caa232946c5e7e1"),
        ),
        r: big_hex(BLS12_381_R),
        h: big_hex("396c8c005555e1568c00aaab0000aaab"),
    }
}

pub fn bls12_381_g2() -> Spec<Weierstrass<QuadF>> {
    let f = QuadF::new(big_hex(BLS12_381_P));
    Spec {
        name: "BLS12-381 G2",
        curve: Weierstrass { a: f.zero(), b: (big_u(4), big_u(4)), f },
        gen: Pt::Aff(
            (
                big_hex("024aa2b2f08f0a91260805272dc51051c6e47ad4fa403b02b4510b647ae3d1770bac0326a805bbefd48056c8c121bdb8"),
                big_hex("13e02b6052719f607dacd3a088274f65596bd0d09920b61ab5da61bbdc7f5049334cf11213945d57e5ac7d055d042b7e"),
            ),
            (
                big_hex("0ce5d527727d6e118cc9cdc6da2e351aadfd9baa8cbdd3a76d429a695160d12c923ac9cc3baca289e193548608b82801"),
                big_hex("0606c4a02ea734cc32acd2b02bc28b99cb3e287e85a763af267492ab572e99ab3f370d275cec1da1aaa9075ff05f79be"),
            ),
        ),
        r: big_hex(BLS12_381_R),
        h: big_hex("5d543a95414e7f1091d50792876a202cd91de4547085abaa68a205b2e5a7ddfa628f1cb4d9e82ef21537e293a6691ae1616ec6e786f0c70cf1c38e31c7238e5"),
    }
}

pub const BN254_P: &str = "30644e72e131a029b85045b68181585d97816a916871ca8d3c208c16d87cfd47";
pub const BN254_R: &str = "30644e72e131a029b85045b68181585d2833e84879b9709143e1f593f0000001";

pub fn bn254_g1() -> Spec<Weierstrass<PrimeF>> {
    let f = PrimeF::new(big_hex(BN254_P));
    Spec {
        name: "BN254 G1",
        curve: Weierstrass { a: Big::zero(), b: big_u(3), f },
        gen: Pt::Aff(big_u(1), big_u(2)),
        r: big_hex(BN254_R),
        h: big_u(1),
    }
}

pub fn bn254_g2() -> Spec<Weierstrass<QuadF>> {
    let f = QuadF::new(big_hex(BN254_P));
    // b' = 3 / (9 + u)    (D-type sextic twist, EIP-197)
    let b = f.div(&f.from_u64(3), &(big_u(9), big_u(1))).expect("9+u invertible");
    let p = big_hex(BN254_P);
    let r = big_hex(BN254_R);
    Spec {
        name: "BN254 G2",
        curve: Weierstrass { a: f.zero(), b, f },
        gen: Pt::Aff(
            (
                big_dec("10857046999023057135944570762232829481370756359578518086990519993285655852781"),
                big_dec("11559732032986387107991004021392285783925812861821192530917403151452391805634"),
            ),
            (
                big_dec("8495653923123431417604973247489272438418190587263600148770280649306958101930"),
                big_dec("4082367875863433681332203403145435568316851327593401208105741076214120093531"),
            ),
        ),
        // #E'(F_p²) = r · (2p − r)
        h: (&p + &p) - &r,
        r,
    }
}

pub fn secp256k1() -> Spec<Weierstrass<PrimeF>> {
    let f = PrimeF::new(big_hex("fffffffffffffffffffffffffffffffffffffffffffffffffffffffefffffc2f"));
    Spec {
        name: "secp256k1",
        curve: Weierstrass { a: Big::zero(), b: big_u(7), f },
        gen: Pt::Aff(
            big_hex("79be667ef9dcbbac55a06295ce870b07029bfcdb2dce28d959f2815b16f81798"),
            big_hex("483ada7726a3c4655da4fbfc0e1108a8fd17b448a68554199c47d08ffb10d4b8"),
        ),
        r: big_hex("fffffffffffffffffffffffffffffffebaaedce6af48a03bbfd25e8cd0364141"),
        h: big_u(1),
    }
}

pub const JUBJUB_R: &str = "0e7db4ea6533afa906673b0101343b00a6682093ccc81082d0970e5ed6f72cb7";

/// Jubjub (Zcash protocol spec §5.4.9.3): −u² + v² = 1 + d·u²·v² over the BLS12-381 scalar field,
/// d = −10240/10241. No full-group generator is standardised; `gen` is the prime-order point the
/// reference derives itself: 8·(u, v) for the smallest v ≥ 2 with even ("positive") u.
pub fn jubjub() -> Spec<TwistedEdwards<PrimeF>> {
    let f = PrimeF::new(big_hex(BLS12_381_R));
    let d = f.neg(&f.div(&big_u(10240), &big_u(10241)).unwrap());
    let a = f.neg(&Big::one());
    let curve = TwistedEdwards { f, a, d };
    let r = big_hex(JUBJUB_R);
    let gen = edwards_first_point(&curve, &r);
    Spec { name: "Jubjub", curve, gen, r, h: big_u(8) }
}

/// Curve25519 in its twisted Edwards form (RFC 8032 edwards25519), base point y = 4/5, x even.
pub fn edwards25519() -> Spec<TwistedEdwards<PrimeF>> {
    let p = (Big::one() << 255usize) - 19u32;
    let f = PrimeF::new(p);
    let d = f.neg(&f.div(&big_u(121665), &big_u(121666)).unwrap());
    let a = f.neg(&Big::one());
    let curve = TwistedEdwards { f, a, d };
    let y = curve.f.div(&big_u(4), &big_u(5)).unwrap();
    let mut x = curve.f.sqrt(&curve.x2_from_y(&y).unwrap()).expect("base point x");
    if x.bit(0) {
        x = curve.f.neg(&x);
    }
    let r = (Big::one() << 252usize) + big_dec("27742317777372353535851937790883648493");
    Spec { name: "edwards25519", curve, gen: Pt::Aff(x, y), r, h: big_u(8) }
}

/// smallest y ≥ 2 giving a point of full order 8·r, even x; returns 8·P (order r)
fn edwards_first_point(c: &TwistedEdwards<PrimeF>, r: &Big) -> Pt<Big> {
    let mut y = big_u(2);
    loop {
        if let Some(x2) = c.x2_from_y(&y) {
            if let Some(mut x) = c.f.sqrt(&x2) {
                if x.bit(0) {
                    x = c.f.neg(&x);
                }
                let p = Pt::Aff(x, y.clone());
                let p8 = c.mul(&p, &big_u(8)).unwrap();
                if !c.is_identity(&p8) && c.is_identity(&c.mul(&p8, r).unwrap()) {
                    return p8;
                }
            }
        }
        y += 1u32;
    }
}

/// All points of order dividing 8 of an Edwards curve with cofactor 8 (cyclic 8-torsion assumed:
/// Jubjub, edwards25519): derived from r·P for on-curve points P until an element of order 8 is
/// found. Returned as [T, 2T, …, 8T = identity].
pub fn edwards_torsion8(spec: &Spec<TwistedEdwards<PrimeF>>) -> Vec<Pt<Big>> {
    let c = &spec.curve;
    let mut y = big_u(2);
    loop {
        if let Some(x2) = c.x2_from_y(&y) {
            if let Some(x) = c.f.sqrt(&x2) {
                let p = Pt::Aff(x, y.clone());
                let t = c.mul(&p, &spec.r).unwrap();
                let t4 = c.mul(&t, &big_u(4)).unwrap();
                if !c.is_identity(&t4) {
                    // order exactly 8
                    let mut out = vec![];
                    let mut acc = t.clone();
                    for _ in 0..8 {
                        out.push(acc.clone());
                        acc = c.add(&acc, &t).unwrap();
                    }
                    return out;
                }
            }
        }
        y += 1u32;
    }
}

// ---------------------------------------------------------------------------------------------
// Reference codecs
// ---------------------------------------------------------------------------------------------

pub type DecodeResult<E> = Result<Pt<E>, &'static str>;

/// ZCash BLS12-381 serialization (also what blst implements). Flag bits in the first byte:
/// 0x80 compressed, 0x40 infinity, 0x20 sign (y lexicographically largest; compressed only).
pub fn zcash_encode<F: RField>(c: &Weierstrass<F>, p: &Pt<F::El>, compressed: bool) -> Vec<u8> {
    let n = c.f.byte_len();
    match p {
        Pt::Inf => {
            let mut out = vec![0u8; if compressed { n } else { 2 * n }];
            out[0] = if compressed { 0xc0 } else { 0x40 };
            out
        }
        Pt::Aff(x, y) => {
            let mut out = c.f.ser(x, true);
            if compressed {
                out[0] |= 0x80;
                if c.f.lex_largest(y) {
                    out[0] |= 0x20;
                }
            } else {
                out.extend(c.f.ser(y, true));
            }
            out
        }
    }
}

/// Canonical decoding, on-curve check included, no subgroup check.
pub fn zcash_decode<F: RField>(c: &Weierstrass<F>, bytes: &[u8], compressed: bool) -> DecodeResult<F::El> {
    let n = c.f.byte_len();
    if bytes.len() != if compressed { n } else { 2 * n } {
        return Err("length");
    }
    let flags = bytes[0] & 0xe0;
    let c_flag = flags & 0x80 != 0;
    let i_flag = flags & 0x40 != 0;
    let s_flag = flags & 0x20 != 0;
    if c_flag != compressed {
        return Err("compression flag does not match the encoding length");
    }
    let mut body = bytes.to_vec();
    body[0] &= 0x1f;
    if i_flag {
        if s_flag {
            return Err("infinity with sign flag");
        }
        if body.iter().any(|b| *b != 0) {
            return Err("infinity with non-zero payload");
        }
        return Ok(Pt::Inf);
    }
    if !compressed && s_flag {
        return Err("sign flag on uncompressed encoding");
    }
    let x = c.f.de(&body[..n], true).ok_or("x not canonical")?;
    if compressed {
        let y = c.f.sqrt(&c.rhs(&x)).ok_or("no y for this x")?;
        let y = if c.f.lex_largest(&y) == s_flag { y } else { c.f.neg(&y) };
        if c.f.is_zero(&y) && s_flag {
            return Err("sign flag on y = 0");
        }
        Ok(Pt::Aff(x, y))
    } else {
        let y = c.f.de(&body[n..], true).ok_or("y not canonical")?;
        let p = Pt::Aff(x, y);
        if !c.on_curve(&p) {
            return Err("not on curve");
        }
        Ok(p)
    }
}

/// halo2curves-style little-endian encoding with two spare bits in the last byte
/// (BN254): bit 7 = sign (y odd), bit 6 = identity. Uncompressed: x ‖ y, identity = all zero.
pub fn twospare_encode<F: RField>(c: &Weierstrass<F>, p: &Pt<F::El>, compressed: bool) -> Vec<u8> {
    let n = c.f.byte_len();
    match p {
        Pt::Inf => {
            let mut out = vec![0u8; if compressed { n } else { 2 * n }];
            if compressed {
                out[n - 1] |= 0x40;
            }
            out
        }
        Pt::Aff(x, y) => {
            let mut out = c.f.ser(x, false);
            if compressed {
                if c.f.is_odd(y) {
                    out[n - 1] |= 0x80;
                }
            } else {
                out.extend(c.f.ser(y, false));
            }
            out
        }
    }
}

pub fn twospare_decode<F: RField>(c: &Weierstrass<F>, bytes: &[u8], compressed: bool) -> DecodeResult<F::El> {
    let n = c.f.byte_len();
    if bytes.len() != if compressed { n } else { 2 * n } {
        return Err("length");
    }
    if compressed {
        let sign = bytes[n - 1] & 0x80 != 0;
        let ident = bytes[n - 1] & 0x40 != 0;
        let mut body = bytes.to_vec();
        body[n - 1] &= 0x3f;
        let x = c.f.de(&body, false).ok_or("x not canonical")?;
        if ident {
            if sign {
                return Err("identity with sign flag");
            }
            if !c.f.is_zero(&x) {
                return Err("identity with non-zero payload");
            }
            return Ok(Pt::Inf);
        }
        let y = c.f.sqrt(&c.rhs(&x)).ok_or("no y for this x")?;
        let y = if c.f.is_odd(&y) == sign { y } else { c.f.neg(&y) };
        if c.f.is_odd(&y) != sign {
            return Err("sign flag on y = 0");
        }
        Ok(Pt::Aff(x, y))
    } else {
        let x = c.f.de(&bytes[..n], false).ok_or("x not canonical")?;
        let y = c.f.de(&bytes[n..], false).ok_or("y not canonical")?;
        if c.f.is_zero(&x) && c.f.is_zero(&y) {
            return Ok(Pt::Inf);
        }
        let p = Pt::Aff(x, y);
        if !c.on_curve(&p) {
            return Err("not on curve");
        }
        Ok(p)
    }
}

/// Edwards compressed encoding (Jubjub, RFC 8032): y little-endian in 255 bits, bit 255 = x odd.
pub fn edwards_encode(_c: &TwistedEdwards<PrimeF>, p: &Pt<Big>) -> Vec<u8> {
    let (x, y) = p.xy().expect("Edwards points are affine");
    let mut out = le_bytes(y, 32);
    if x.bit(0) {
        out[31] |= 0x80;
    }
    out
}

pub fn edwards_decode(c: &TwistedEdwards<PrimeF>, bytes: &[u8]) -> DecodeResult<Big> {
    if bytes.len() != 32 {
        return Err("length");
    }
    let sign = bytes[31] & 0x80 != 0;
    let mut body = bytes.to_vec();
    body[31] &= 0x7f;
    let y = Big::from_bytes_le(&body);
    if y >= c.f.p {
        return Err("y not canonical");
    }
    let x2 = c.x2_from_y(&y).ok_or("denominator zero")?;
    let x = c.f.sqrt(&x2).ok_or("no x for this y")?;
    if x.is_zero() && sign {
        return Err("sign bit set on x = 0");
    }
    let x = if x.bit(0) == sign { x } else { c.f.neg(&x) };
    Ok(Pt::Aff(x, y))
}

/// SEC1 compressed, fixed 33 bytes; identity = 33 zero bytes (the `GroupEncoding` convention of
/// the RustCrypto crates).
pub fn sec1_encode(c: &Weierstrass<PrimeF>, p: &Pt<Big>) -> Vec<u8> {
    match p {
        Pt::Inf => vec![0u8; 33],
        Pt::Aff(x, y) => {
            let mut out = vec![if y.bit(0) { 3u8 } else { 2u8 }];
            out.extend(be_bytes(x, 32));
            let _ = c;
            out
        }
    }
}

pub fn sec1_decode(c: &Weierstrass<PrimeF>, bytes: &[u8]) -> DecodeResult<Big> {
    if bytes.len() != 33 {
        return Err("length");
    }
    match bytes[0] {
        0 => {
            if bytes[1..].iter().any(|b| *b != 0) {
                Err("identity with non-zero payload")
            } else {
                Ok(Pt::Inf)
            }
        }
        2 | 3 => {
            let x = Big::from_bytes_be(&bytes[1..]);
            if x >= c.f.p {
                return Err("x not canonical");
            }
            let y = c.f.sqrt(&c.rhs(&x)).ok_or("no y for this x")?;
            let y = if y.bit(0) == (bytes[0] == 3) { y } else { c.f.neg(&y) };
            Ok(Pt::Aff(x, y))
        }
        _ => Err("tag"),
    }
}

// ---------------------------------------------------------------------------------------------
// Unit checks against published vectors (run by `c11 --stage selfcheck` and at start of every run)
// ---------------------------------------------------------------------------------------------

/// Returns a list of failed self-checks (empty = the reference agrees with the published data).
pub fn self_check() -> Vec<String> {
    let mut bad = vec![];
    macro_rules! chk {
        ($c:expr, $m:expr) => {
            if !$c {
                bad.push($m.to_string());
            }
        };
    }
    for r in [bls12_381_g1().sane(), bn254_g1().sane(), secp256k1().sane()] {
        if let Err(e) = r {
            bad.push(e);
        }
    }
    for r in [bls12_381_g2().sane(), bn254_g2().sane()] {
        if let Err(e) = r {
            bad.push(e);
        }
    }
    for r in [jubjub().sane(), edwards25519().sane()] {
        if let Err(e) = r {
            bad.push(e);
        }
    }
    // secp256k1: 2G and 3G (SEC test vectors)
    let k = secp256k1();
    let g2 = k.curve.double(&k.gen).unwrap();
    chk!(
        g2 == Pt::Aff(
            big_hex("c6047f9441ed7d6d3045406e95c07cd85c778e4b8cef3ca7abac09b95c709ee5"),
            big_hex("1ae168fea63dc339a3c58419466ceaeef7f632653266d0e1236431a950cfe52a")
        ),
        "secp256k1 2G vector"
    );
    let g3 = k.curve.mul(&k.gen, &big_u(3)).unwrap();
    chk!(
        g3 == Pt::Aff(
            big_hex("f9308a019258c31049344f85f89d5229b531c845836f99b08601f113bce036f9"),
            big_hex("388f7b0f632de8140fe337e62a37f3566500a99934c2231b6cb9fd7584b8e672")
        ),
        "secp256k1 3G vector"
    );
    chk!(
        hex::encode(sec1_encode(&k.curve, &k.gen))
            == "0279be667ef9dcbbac55a06295ce870b07029bfcdb2dce28d959f2815b16f81798",
        "secp256k1 SEC1 generator"
    );
    // edwards25519: RFC 8032 base point encoding, x coordinate, d
    let e = edwards25519();
    chk!(
        hex::encode(edwards_encode(&e.curve, &e.gen))
            == "5866666666666666666666666666666666666666666666666666666666666666",
        "edwards25519 base point encoding"
    );
    chk!(
        e.gen.xy().unwrap().0
            == &big_dec("15112221349535400772501151409588531511454012693041857206046113283949847762202"),
        "edwards25519 base point x"
    );
    chk!(
        e.curve.d == big_dec("37095705934669439343138083508754565189542113879843219016388785533085940283555"),
        "edwards25519 d"
    );
    chk!(edwards_torsion8(&e).len() == 8, "edwards25519 torsion");
    // Jubjub d (Zcash spec value) and subgroup order
    let j = jubjub();
    chk!(
        j.curve.d == big_hex("2a9318e74bfa2b48f5fd9207e6bd7fd4292d7f6d37579d2601065fd6d6343eb1"),
        "jubjub d"
    );
    chk!(edwards_torsion8(&j).len() == 8, "jubjub torsion");
    // BLS12-381 ZCash encodings of the generators (published test vectors)
    let g1 = bls12_381_g1();
    chk!(
        hex::encode(zcash_encode(&g1.curve, &g1.gen, true))
            == "97f1d3a73197d7942695638c4fa9ac0fc3688c4f9774b905a14e3a3f171bac586c55e83ff97a1aeffb3af00adb22c6bb",
        "bls12-381 g1 compressed generator"
    );
    let g2s = bls12_381_g2();
    chk!(
        hex::encode(zcash_encode(&g2s.curve, &g2s.gen, true))
            == "93e02b6052719f607dacd3a088274f65596bd0d09920b61ab5da61bbdc7f5049334cf11213945d57e5ac7d055d042b7e024aa2b2f08f0a91260805272dc51051c6e47ad4fa403b02b4510b647ae3d1770bac0326a805bbefd48056c8c121bdb8",
        "bls12-381 g2 compressed generator"
    );
    // cofactors: h·r·P = identity for a point outside the subgroup is checked in c11 at run time
    // round trips of every codec on the generators
    chk!(zcash_decode(&g1.curve, &zcash_encode(&g1.curve, &g1.gen, true), true) == Ok(g1.gen.clone()), "zcash g1 c rt");
    chk!(zcash_decode(&g1.curve, &zcash_encode(&g1.curve, &g1.gen, false), false) == Ok(g1.gen.clone()), "zcash g1 u rt");
    chk!(zcash_decode(&g2s.curve, &zcash_encode(&g2s.curve, &g2s.gen, true), true) == Ok(g2s.gen.clone()), "zcash g2 c rt");
    chk!(zcash_decode(&g2s.curve, &zcash_encode(&g2s.curve, &g2s.gen, false), false) == Ok(g2s.gen.clone()), "zcash g2 u rt");
    let b1 = bn254_g1();
    let b2 = bn254_g2();
    chk!(twospare_decode(&b1.curve, &twospare_encode(&b1.curve, &b1.gen, true), true) == Ok(b1.gen.clone()), "bn g1 c rt");
    chk!(twospare_decode(&b2.curve, &twospare_encode(&b2.curve, &b2.gen, true), true) == Ok(b2.gen.clone()), "bn g2 c rt");
    chk!(twospare_decode(&b2.curve, &twospare_encode(&b2.curve, &b2.gen, false), false) == Ok(b2.gen.clone()), "bn g2 u rt");
    chk!(edwards_decode(&j.curve, &edwards_encode(&j.curve, &j.gen)) == Ok(j.gen.clone()), "jubjub rt");
    chk!(sec1_decode(&k.curve, &sec1_encode(&k.curve, &k.gen)) == Ok(k.gen.clone()), "sec1 rt");
    // field sanity: Fp2 sqrt and inverse
    let f2 = &g2s.curve.f;
    let a = (big_u(1234567), big_u(7654321));
    let a2 = f2.sqr(&a);
    let s = f2.sqrt(&a2).unwrap();
    chk!(s == a || s == f2.neg(&a), "fp2 sqrt");
    chk!(f2.mul(&a, &f2.inv(&a).unwrap()) == f2.one(), "fp2 inv");
    chk!(!f2.is_square(&(big_u(1), big_u(1))) || f2.sqrt(&(big_u(1), big_u(1))).is_some(), "fp2 is_square/sqrt agree");
    bad
}
