//! reference model: curve (see DESIGN.md §4 E7)
