//! reference model: field (see DESIGN.md §4 E7)
//!
//! Independent, deliberately naive model of the finite fields used by `midnight-curves`, over
//! `num_bigint::BigUint`. Nothing here calls into the library under test.
//!
//! * [`RefPrime`] — GF(p): values are `BigUint` in `[0, p)`; add, sub, neg, mul, square, double,
//!   inversion (extended Euclid, and Fermat as a cross-check), `pow`, Legendre symbol by Euler's
//!   criterion, square roots by Tonelli–Shanks, wide reduction of little-endian byte strings.
//! * [`RefField`] — a tower `GF(p) ⊂ K₁ ⊂ K₂ …` where every step is `K[X]/(Xⁿ − ν)` with `n ∈ {2,3}`
//!   and `ν ∈ K`. Elements are *flattened coefficient vectors* [`El`]` = Vec<BigUint>` of length
//!   `degree()`, ordered `[c₀ flattened, c₁ flattened, …]` (so for Fp12 = Fp6[w], Fp6 = Fp2[v],
//!   Fp2 = Fp[u] the order is c0.c0.c0, c0.c0.c1, c0.c1.c0, …, c1.c2.c1 — the order in which the
//!   library types nest their `c0/c1/c2`). Multiplication is schoolbook polynomial multiplication
//!   followed by the substitution `Xⁿ = ν`; inversion solves the linear system `M_x · y = 1` by
//!   Gaussian elimination over the sub-field (no norm/conjugate formulas), so it shares nothing
//!   with the formulas used by the implementations.
//! * Ready-made instances of the standard parameters: BLS12-381 (`p`, `r`, Fp2 = Fp[u]/(u²+1),
//!   Fp6 = Fp2[v]/(v³−(u+1)), Fp12 = Fp6[w]/(w²−v)), BN254 (`q`, `r`, Fq2 = Fq[u]/(u²+1),
//!   Fq6 = Fq2[v]/(v³−(u+9)), Fq12 = Fq6[w]/(w²−v)), Jubjub `r`, secp256k1 `p`/`n`, Curve25519
//!   `2²⁵⁵−19`/`ℓ`.
//! * [`selftest`] — published identities about those parameters and round-trip identities of the
//!   model; run by `setup.sh` / by every check that uses the model, so a bug here is a setup
//!   failure, not a violation.

use num_bigint::{BigInt, BigUint, Sign};
use num_integer::Integer;
use num_traits::{One, Zero};

// ---------------------------------------------------------------------------------------------
// helpers
// ---------------------------------------------------------------------------------------------

/// Parses a hexadecimal string (optional `0x`, underscores allowed).
pub fn hex(s: &str) -> BigUint {
    let t: String = s.trim_start_matches("0x").chars().filter(|c| *c != '_').collect();
    BigUint::parse_bytes(t.as_bytes(), 16).expect("hex literal")
}

/// `0x…` lower-case hexadecimal of `v`.
pub fn to_hex(v: &BigUint) -> String {
    format!("0x{}", v.to_str_radix(16))
}

/// Little-endian bytes of `v`, padded with zeros to `len` bytes (panics if it does not fit).
pub fn to_le(v: &BigUint, len: usize) -> Vec<u8> {
    let mut b = v.to_bytes_le();
    assert!(b.len() <= len || b[len..].iter().all(|x| *x == 0), "value does not fit {len} bytes");
    b.resize(len, 0);
    b
}

/// Big-endian bytes of `v`, padded to `len`.
pub fn to_be(v: &BigUint, len: usize) -> Vec<u8> {
    let mut b = to_le(v, len);
    b.reverse();
    b
}

/// Deterministic Miller–Rabin with the first 24 primes as bases (plenty for the fixed parameters
/// that are tested here; these are published primes, the test only guards against typos).
pub fn is_probable_prime(n: &BigUint) -> bool {
    let two = BigUint::from(2u32);
    if n < &two {
        return false;
    }
    let small: [u32; 24] =
        [2, 3, 5, 7, 11, 13, 17, 19, 23, 29, 31, 37, 41, 43, 47, 53, 59, 61, 67, 71, 73, 79, 83, 89];
    for q in small {
        let q = BigUint::from(q);
        if n == &q {
            return true;
        }
        if (n % &q).is_zero() {
            return false;
        }
    }
    let n1 = n - 1u32;
    let s = n1.trailing_zeros().unwrap_or(0);
    let d = &n1 >> s;
    'bases: for a in small {
        let mut x = BigUint::from(a).modpow(&d, n);
        if x.is_one() || x == n1 {
            continue;
        }
        for _ in 1..s {
            x = (&x * &x) % n;
            if x == n1 {
                continue 'bases;
            }
        }
        return false;
    }
    true
}

// ---------------------------------------------------------------------------------------------
// GF(p)
// ---------------------------------------------------------------------------------------------

/// The prime field GF(p). All methods take and return canonical representatives in `[0, p)`
/// (inputs are reduced first, so out-of-range inputs are tolerated).
#[derive(Clone, Debug, PartialEq, Eq)]
pub struct RefPrime {
    pub p: BigUint,
}

impl RefPrime {
    pub fn new(p: BigUint) -> Self {
        assert!(p > BigUint::from(2u32) && p.is_odd(), "odd prime expected");
        RefPrime { p }
    }
    pub fn from_hex(s: &str) -> Self {
        Self::new(hex(s))
    }

    /// Number of bits of p.
    pub fn bits(&self) -> u64 {
        self.p.bits()
    }
    /// Integer → canonical representative.
    pub fn reduce(&self, v: &BigUint) -> BigUint {
        v % &self.p
    }
    /// Little-endian byte string of any length → `int mod p` (what `from_uniform_bytes` must be).
    pub fn reduce_le_bytes(&self, bytes: &[u8]) -> BigUint {
        BigUint::from_bytes_le(bytes) % &self.p
    }
    /// Big-endian byte string of any length → `int mod p`.
    pub fn reduce_be_bytes(&self, bytes: &[u8]) -> BigUint {
        BigUint::from_bytes_be(bytes) % &self.p
    }
    pub fn add(&self, a: &BigUint, b: &BigUint) -> BigUint {
        (a + b) % &self.p
    }
    pub fn sub(&self, a: &BigUint, b: &BigUint) -> BigUint {
        ((a % &self.p) + &self.p - (b % &self.p)) % &self.p
    }
    pub fn neg(&self, a: &BigUint) -> BigUint {
        (&self.p - (a % &self.p)) % &self.p
    }
    pub fn mul(&self, a: &BigUint, b: &BigUint) -> BigUint {
        (a * b) % &self.p
    }
    pub fn square(&self, a: &BigUint) -> BigUint {
        (a * a) % &self.p
    }
    pub fn double(&self, a: &BigUint) -> BigUint {
        (a + a) % &self.p
    }
    /// Multiplicative inverse by the extended Euclidean algorithm; `None` for 0.
    pub fn invert(&self, a: &BigUint) -> Option<BigUint> {
        let a = a % &self.p;
        if a.is_zero() {
            return None;
        }
        // invariant: r0 = s0 * a (mod p), r1 = s1 * a (mod p)
        let p = BigInt::from_biguint(Sign::Plus, self.p.clone());
        let (mut r0, mut r1) = (p.clone(), BigInt::from_biguint(Sign::Plus, a));
        let (mut s0, mut s1) = (BigInt::zero(), BigInt::one());
        while !r1.is_zero() {
            let q = &r0 / &r1;
            let r2 = &r0 - &q * &r1;
            let s2 = &s0 - &q * &s1;
            r0 = r1;
            r1 = r2;
            s0 = s1;
            s1 = s2;
        }
        assert!(r0.is_one(), "modulus is not prime (gcd != 1)");
        let inv = s0.mod_floor(&p);
        Some(inv.to_biguint().expect("non-negative"))
    }
    /// Multiplicative inverse as `a^(p-2)` (Fermat); `None` for 0. Cross-check of [`invert`].
    pub fn invert_fermat(&self, a: &BigUint) -> Option<BigUint> {
        let a = a % &self.p;
        if a.is_zero() {
            None
        } else {
            Some(a.modpow(&(&self.p - 2u32), &self.p))
        }
    }
    /// `a^e` by left-to-right square-and-multiply written out here (not `modpow`).
    pub fn pow(&self, a: &BigUint, e: &BigUint) -> BigUint {
        let a = a % &self.p;
        let mut acc = BigUint::one() % &self.p;
        for i in (0..e.bits()).rev() {
            acc = (&acc * &acc) % &self.p;
            if e.bit(i) {
                acc = (&acc * &a) % &self.p;
            }
        }
        acc
    }
    /// Legendre symbol by Euler's criterion: 0 for 0, 1 for a non-zero square, −1 otherwise.
    pub fn legendre(&self, a: &BigUint) -> i64 {
        let a = a % &self.p;
        if a.is_zero() {
            return 0;
        }
        let r = a.modpow(&((&self.p - 1u32) >> 1), &self.p);
        if r.is_one() {
            1
        } else {
            assert_eq!(r, &self.p - 1u32, "Euler criterion returned neither 1 nor -1: p not prime?");
            -1
        }
    }
    pub fn is_square(&self, a: &BigUint) -> bool {
        self.legendre(a) >= 0
    }
    /// `(s, t)` with `p − 1 = 2^s · t`, `t` odd.
    pub fn two_adicity(&self) -> (u32, BigUint) {
        let n1 = &self.p - 1u32;
        let s = n1.trailing_zeros().unwrap_or(0);
        (s as u32, &n1 >> s)
    }
    /// The smallest non-square `2, 3, 4, …` of GF(p).
    pub fn smallest_nonsquare(&self) -> BigUint {
        let mut z = BigUint::from(2u32);
        while self.legendre(&z) != -1 {
            z += 1u32;
        }
        z
    }
    /// A square root by Tonelli–Shanks (`None` for non-squares). Which of the two roots is
    /// returned is unspecified; callers compare `r²`, or `{r, −r}`.
    pub fn sqrt(&self, a: &BigUint) -> Option<BigUint> {
        let a = a % &self.p;
        if a.is_zero() {
            return Some(a);
        }
        if self.legendre(&a) != 1 {
            return None;
        }
        let (s, t) = self.two_adicity();
        let z = self.smallest_nonsquare();
        let mut m = s;
        let mut c = z.modpow(&t, &self.p);
        let mut tt = a.modpow(&t, &self.p);
        let mut r = a.modpow(&((&t + 1u32) >> 1), &self.p);
        while !tt.is_one() {
            // least i with tt^(2^i) = 1
            let mut i = 0u32;
            let mut x = tt.clone();
            while !x.is_one() {
                x = (&x * &x) % &self.p;
                i += 1;
            }
            assert!(i < m, "Tonelli–Shanks invariant");
            let mut b = c.clone();
            for _ in 0..(m - i - 1) {
                b = (&b * &b) % &self.p;
            }
            m = i;
            c = (&b * &b) % &self.p;
            tt = (&tt * &c) % &self.p;
            r = (&r * &b) % &self.p;
        }
        debug_assert_eq!((&r * &r) % &self.p, a);
        Some(r)
    }
    /// Multiplicative order of `a` divides `2^k` exactly: `a^(2^k) = 1` and `a^(2^(k−1)) ≠ 1`
    /// (for `k = 0`: `a = 1`).
    pub fn has_order_pow2(&self, a: &BigUint, k: u32) -> bool {
        let a = a % &self.p;
        if k == 0 {
            return a.is_one();
        }
        let mut x = a;
        for _ in 0..(k - 1) {
            x = (&x * &x) % &self.p;
        }
        !x.is_one() && ((&x * &x) % &self.p).is_one()
    }
}

// ---------------------------------------------------------------------------------------------
// towers
// ---------------------------------------------------------------------------------------------

/// Flattened coefficient vector of a tower element (see the module documentation for the order).
pub type El = Vec<BigUint>;

/// One extension step `K[X]/(Xⁿ − ν)`.
#[derive(Clone, Debug, PartialEq, Eq)]
pub struct RefExt {
    pub base: RefField,
    /// 2 or 3
    pub n: usize,
    /// ν, an element of `base` (flattened)
    pub nonres: El,
}

/// GF(p) or an extension tower over it.
#[derive(Clone, Debug, PartialEq, Eq)]
pub enum RefField {
    Prime(RefPrime),
    Ext(Box<RefExt>),
}

impl RefField {
    pub fn prime(p: BigUint) -> Self {
        RefField::Prime(RefPrime::new(p))
    }
    /// `self[X]/(Xⁿ − nonres)`.
    pub fn extend(self, n: usize, nonres: El) -> Self {
        assert!(n == 2 || n == 3);
        assert_eq!(nonres.len(), self.degree());
        RefField::Ext(Box::new(RefExt {
            base: self,
            n,
            nonres,
        }))
    }
    /// The prime sub-field.
    pub fn prime_field(&self) -> &RefPrime {
        match self {
            RefField::Prime(p) => p,
            RefField::Ext(e) => e.base.prime_field(),
        }
    }
    /// Characteristic.
    pub fn p(&self) -> &BigUint {
        &self.prime_field().p
    }
    /// Degree over GF(p) = length of an [`El`].
    pub fn degree(&self) -> usize {
        match self {
            RefField::Prime(_) => 1,
            RefField::Ext(e) => e.n * e.base.degree(),
        }
    }
    /// Number of elements `p^degree`.
    pub fn order(&self) -> BigUint {
        let mut o = BigUint::one();
        for _ in 0..self.degree() {
            o *= self.p();
        }
        o
    }
    pub fn zero(&self) -> El {
        vec![BigUint::zero(); self.degree()]
    }
    pub fn one(&self) -> El {
        let mut v = self.zero();
        v[0] = BigUint::one();
        v
    }
    /// Embeds an integer (reduced mod p) as a constant.
    pub fn from_int(&self, v: &BigUint) -> El {
        let mut e = self.zero();
        e[0] = v % self.p();
        e
    }
    pub fn is_zero(&self, a: &[BigUint]) -> bool {
        a.iter().all(|c| (c % self.p()).is_zero())
    }
    /// Reduces every coefficient.
    pub fn reduce(&self, a: &[BigUint]) -> El {
        assert_eq!(a.len(), self.degree());
        a.iter().map(|c| c % self.p()).collect()
    }
    pub fn add(&self, a: &[BigUint], b: &[BigUint]) -> El {
        assert!(a.len() == self.degree() && b.len() == self.degree());
        let f = self.prime_field();
        a.iter().zip(b).map(|(x, y)| f.add(x, y)).collect()
    }
    pub fn sub(&self, a: &[BigUint], b: &[BigUint]) -> El {
        assert!(a.len() == self.degree() && b.len() == self.degree());
        let f = self.prime_field();
        a.iter().zip(b).map(|(x, y)| f.sub(x, y)).collect()
    }
    pub fn neg(&self, a: &[BigUint]) -> El {
        assert_eq!(a.len(), self.degree());
        let f = self.prime_field();
        a.iter().map(|x| f.neg(x)).collect()
    }
    pub fn double(&self, a: &[BigUint]) -> El {
        self.add(a, a)
    }
    /// Schoolbook product followed by `Xⁿ = ν`.
    pub fn mul(&self, a: &[BigUint], b: &[BigUint]) -> El {
        assert!(a.len() == self.degree() && b.len() == self.degree());
        match self {
            RefField::Prime(f) => vec![f.mul(&a[0], &b[0])],
            RefField::Ext(e) => {
                let d = e.base.degree();
                let n = e.n;
                // product polynomial of degree ≤ 2n−2 over the base
                let mut prod: Vec<El> = vec![e.base.zero(); 2 * n - 1];
                for i in 0..n {
                    for j in 0..n {
                        let t = e.base.mul(&a[i * d..(i + 1) * d], &b[j * d..(j + 1) * d]);
                        prod[i + j] = e.base.add(&prod[i + j], &t);
                    }
                }
                // fold X^(n+k) = ν · X^k, from the top
                for k in (n..2 * n - 1).rev() {
                    let t = e.base.mul(&prod[k], &e.nonres);
                    prod[k - n] = e.base.add(&prod[k - n], &t);
                }
                prod.truncate(n);
                prod.concat()
            }
        }
    }
    pub fn square(&self, a: &[BigUint]) -> El {
        self.mul(a, a)
    }
    /// Inverse; `None` for zero. For extensions: Gaussian elimination on the matrix of
    /// "multiplication by `a`" over the sub-field.
    pub fn invert(&self, a: &[BigUint]) -> Option<El> {
        assert_eq!(a.len(), self.degree());
        match self {
            RefField::Prime(f) => f.invert(&a[0]).map(|v| vec![v]),
            RefField::Ext(e) => {
                if self.is_zero(a) {
                    return None;
                }
                let d = e.base.degree();
                let n = e.n;
                // column j of M = a · X^j, as n coefficients over the base
                let mut cols: Vec<Vec<El>> = Vec::with_capacity(n);
                for j in 0..n {
                    let mut xj = self.zero();
                    xj[j * d] = BigUint::one();
                    let c = self.mul(a, &xj);
                    cols.push((0..n).map(|i| c[i * d..(i + 1) * d].to_vec()).collect());
                }
                // augmented matrix rows: [M[i][0..n] | rhs_i], rhs = e_0
                let mut m: Vec<Vec<El>> = (0..n)
                    .map(|i| {
                        let mut row: Vec<El> = (0..n).map(|j| cols[j][i].clone()).collect();
                        row.push(if i == 0 { e.base.one() } else { e.base.zero() });
                        row
                    })
                    .collect();
                for col in 0..n {
                    let piv = (col..n).find(|r| !e.base.is_zero(&m[*r][col]))?;
                    m.swap(col, piv);
                    let inv = e.base.invert(&m[col][col])?;
                    for j in 0..=n {
                        m[col][j] = e.base.mul(&m[col][j], &inv);
                    }
                    for r in 0..n {
                        if r != col && !e.base.is_zero(&m[r][col]) {
                            let f = m[r][col].clone();
                            for j in 0..=n {
                                let t = e.base.mul(&f, &m[col][j]);
                                m[r][j] = e.base.sub(&m[r][j], &t);
                            }
                        }
                    }
                }
                let y: El = (0..n).flat_map(|i| m[i][n].clone()).collect();
                debug_assert_eq!(self.mul(a, &y), self.one());
                Some(y)
            }
        }
    }
    /// `a^e`, left-to-right square-and-multiply.
    pub fn pow(&self, a: &[BigUint], e: &BigUint) -> El {
        let a = self.reduce(a);
        let mut acc = self.one();
        for i in (0..e.bits()).rev() {
            acc = self.mul(&acc, &acc);
            if e.bit(i) {
                acc = self.mul(&acc, &a);
            }
        }
        acc
    }
    /// Quadratic character by Euler's criterion in this field: `a^((|K|−1)/2)` ∈ {0, 1, −1}.
    pub fn legendre(&self, a: &[BigUint]) -> i64 {
        if self.is_zero(a) {
            return 0;
        }
        if let RefField::Prime(f) = self {
            return f.legendre(&a[0]);
        }
        let e = (self.order() - 1u32) >> 1;
        let r = self.pow(a, &e);
        if r == self.one() {
            1
        } else {
            assert_eq!(r, self.neg(&self.one()), "Euler criterion in extension");
            -1
        }
    }
    pub fn is_square(&self, a: &[BigUint]) -> bool {
        self.legendre(a) >= 0
    }
    /// The Frobenius endomorphism `a ↦ a^(p^k)` computed as `k` literal `p`-th powers.
    pub fn frobenius(&self, a: &[BigUint], k: usize) -> El {
        let mut x = self.reduce(a);
        for _ in 0..k {
            x = self.pow(&x, self.p());
        }
        x
    }
    /// Square root. Prime fields: Tonelli–Shanks. Quadratic extension `K[X]/(X²−ν)`: from
    /// `(c₀+c₁X)² = a₀+a₁X` ⇒ `c₀² = (a₀ ± √N)/2` with `N = a₀² − ν a₁²`, `c₁ = a₁/(2c₀)`.
    /// Other towers: `None` is returned for non-squares, and a root is searched through the
    /// quadratic top step when there is one; cubic top steps are not supported (panic).
    pub fn sqrt(&self, a: &[BigUint]) -> Option<El> {
        match self {
            RefField::Prime(f) => f.sqrt(&a[0]).map(|v| vec![v]),
            RefField::Ext(e) if e.n == 2 => {
                let a = self.reduce(a);
                let d = e.base.degree();
                let (a0, a1) = (&a[..d], &a[d..]);
                let k = &e.base;
                if self.is_zero(&a) {
                    return Some(self.zero());
                }
                let two_inv = k.invert(&k.from_int(&BigUint::from(2u32)))?;
                if k.is_zero(a1) {
                    // a ∈ K: either √a₀ ∈ K, or a₀/ν is a square in K and the root is √(a₀/ν)·X
                    if let Some(r) = k.sqrt(a0) {
                        return Some([r, k.zero()].concat());
                    }
                    let q = k.mul(a0, &k.invert(&e.nonres)?);
                    return k.sqrt(&q).map(|r| [k.zero(), r].concat());
                }
                let norm = k.sub(&k.mul(a0, a0), &k.mul(&e.nonres, &k.mul(a1, a1)));
                let s = k.sqrt(&norm)?;
                for s in [s.clone(), k.neg(&s)] {
                    let c0sq = k.mul(&k.add(a0, &s), &two_inv);
                    if k.is_zero(&c0sq) {
                        continue;
                    }
                    if let Some(c0) = k.sqrt(&c0sq) {
                        let c1 = k.mul(a1, &k.invert(&k.double(&c0))?);
                        let r = [c0, c1].concat();
                        if self.mul(&r, &r) == a {
                            return Some(r);
                        }
                    }
                }
                None
            }
            RefField::Ext(_) => panic!("reference sqrt over a cubic top step is not modelled"),
        }
    }
}

// ---------------------------------------------------------------------------------------------
// standard parameters
// ---------------------------------------------------------------------------------------------

pub mod params {
    //! Published parameters (as stated by the standards / original papers, *not* copied from the
    //! repository): moduli and tower non-residues.
    use super::*;

    /// BLS12-381 base field modulus p (381 bits).
    pub const BLS12_381_P: &str = "1a0111ea397fe69a4b1ba7b6434bacd764774b84f38512bf6730d2a0f6b0f6241eabfffeb153ffffb9feffffffffaaab";
    /// BLS12-381 scalar field modulus r (255 bits) = order of G1/G2/Gt.
    pub const BLS12_381_R: &str =
        "73eda753299d7d483339d80809a1d80553bda402fffe5bfeffffffff00000001";
    /// |x| of the BLS12-381 parametrisation (x = −0xd201000000010000).
    pub const BLS12_381_X_ABS: &str = "d201000000010000";
    /// Jubjub prime-order subgroup size (252 bits); the Jubjub base field is BLS12-381's r.
    pub const JUBJUB_R: &str = "0e7db4ea6533afa906673b0101343b00a6682093ccc81082d0970e5ed6f72cb7";
    /// secp256k1 base field 2²⁵⁶ − 2³² − 977.
    pub const SECP256K1_P: &str =
        "fffffffffffffffffffffffffffffffffffffffffffffffffffffffefffffc2f";
    /// secp256k1 group order n.
    pub const SECP256K1_N: &str =
        "fffffffffffffffffffffffffffffffebaaedce6af48a03bbfd25e8cd0364141";
    /// 2²⁵⁵ − 19.
    pub const CURVE25519_P: &str =
        "7fffffffffffffffffffffffffffffffffffffffffffffffffffffffffffffed";
    /// ℓ = 2²⁵² + 27742317777372353535851937790883648493 (order of the Ed25519 base point).
    pub const CURVE25519_L: &str =
        "1000000000000000000000000000000014def9dea2f79cd65812631a5cf5d3ed";
    /// BN254 (alt_bn128) base field q.
    pub const BN254_Q: &str = "30644e72e131a029b85045b68181585d97816a916871ca8d3c208c16d87cfd47";
    /// BN254 scalar field r.
    pub const BN254_R: &str = "30644e72e131a029b85045b68181585d2833e84879b9709143e1f593f0000001";
    /// BN parameter x = 4965661367192848881.
    pub const BN254_X: u64 = 4965661367192848881;

    pub fn bls12_381_fp() -> RefField {
        RefField::prime(hex(BLS12_381_P))
    }
    pub fn bls12_381_fr() -> RefField {
        RefField::prime(hex(BLS12_381_R))
    }
    /// Fp2 = Fp[u]/(u² + 1)
    pub fn bls12_381_fp2() -> RefField {
        let f = bls12_381_fp();
        let m1 = f.neg(&f.one());
        f.extend(2, m1)
    }
    /// Fp6 = Fp2[v]/(v³ − (u + 1))
    pub fn bls12_381_fp6() -> RefField {
        bls12_381_fp2().extend(3, vec![BigUint::one(), BigUint::one()])
    }
    /// Fp12 = Fp6[w]/(w² − v)
    pub fn bls12_381_fp12() -> RefField {
        let f6 = bls12_381_fp6();
        let mut v = f6.zero();
        v[2] = BigUint::one(); // c1.c0 = 1  ⇒  v
        f6.extend(2, v)
    }
    pub fn jubjub_fr() -> RefField {
        RefField::prime(hex(JUBJUB_R))
    }
    pub fn secp256k1_fp() -> RefField {
        RefField::prime(hex(SECP256K1_P))
    }
    pub fn secp256k1_fq() -> RefField {
        RefField::prime(hex(SECP256K1_N))
    }
    pub fn curve25519_fp() -> RefField {
        RefField::prime(hex(CURVE25519_P))
    }
    pub fn curve25519_scalar() -> RefField {
        RefField::prime(hex(CURVE25519_L))
    }
    pub fn bn254_fq() -> RefField {
        RefField::prime(hex(BN254_Q))
    }
    pub fn bn254_fr() -> RefField {
        RefField::prime(hex(BN254_R))
    }
    /// Fq2 = Fq[u]/(u² + 1)
    pub fn bn254_fq2() -> RefField {
        let f = bn254_fq();
        let m1 = f.neg(&f.one());
        f.extend(2, m1)
    }
    /// Fq6 = Fq2[v]/(v³ − (u + 9))
    pub fn bn254_fq6() -> RefField {
        bn254_fq2().extend(3, vec![BigUint::from(9u32), BigUint::one()])
    }
    /// Fq12 = Fq6[w]/(w² − v)
    pub fn bn254_fq12() -> RefField {
        let f6 = bn254_fq6();
        let mut v = f6.zero();
        v[2] = BigUint::one();
        f6.extend(2, v)
    }
}

// ---------------------------------------------------------------------------------------------
// self test
// ---------------------------------------------------------------------------------------------

/// Published identities and internal consistency of the model. `Err` describes the first failure.
pub fn selftest() -> Result<(), String> {
    use params::*;
    macro_rules! ensure {
        ($c:expr, $($m:tt)*) => { if !($c) { return Err(format!($($m)*)); } };
    }
    let big = |v: u64| BigUint::from(v);

    // -- the parameters are the published ones -------------------------------------------------
    for (name, h, bits) in [
        ("bls12-381 p", BLS12_381_P, 381),
        ("bls12-381 r", BLS12_381_R, 255),
        ("jubjub r", JUBJUB_R, 252),
        ("secp256k1 p", SECP256K1_P, 256),
        ("secp256k1 n", SECP256K1_N, 256),
        ("2^255-19", CURVE25519_P, 255),
        ("ed25519 l", CURVE25519_L, 253),
        ("bn254 q", BN254_Q, 254),
        ("bn254 r", BN254_R, 254),
    ] {
        let p = hex(h);
        ensure!(p.bits() == bits, "{name}: {} bits, expected {bits}", p.bits());
        ensure!(is_probable_prime(&p), "{name} is not prime");
    }
    // BLS12: r = x⁴ − x² + 1, p = (x − 1)² r / 3 + x with x = −|x|
    {
        let x = hex(BLS12_381_X_ABS);
        let x2 = &x * &x;
        let r = &x2 * &x2 - &x2 + 1u32;
        ensure!(r == hex(BLS12_381_R), "BLS12-381 r does not match x^4 - x^2 + 1");
        let xm1sq = (&x + 1u32) * (&x + 1u32); // (x − 1)² with x negative
        let p = (&xm1sq * &r) / 3u32 - &x;
        ensure!(((&xm1sq * &r) % 3u32).is_zero(), "BLS12-381 (x-1)^2 r not divisible by 3");
        ensure!(p == hex(BLS12_381_P), "BLS12-381 p does not match (x-1)^2 r/3 + x");
    }
    // BN: q = 36x⁴+36x³+24x²+6x+1, r = 36x⁴+36x³+18x²+6x+1
    {
        let x = big(BN254_X);
        let (x2, x3, x4) = (&x * &x, &x * &x * &x, &x * &x * &x * &x);
        let q = &x4 * 36u32 + &x3 * 36u32 + &x2 * 24u32 + &x * 6u32 + 1u32;
        let r = &x4 * 36u32 + &x3 * 36u32 + &x2 * 18u32 + &x * 6u32 + 1u32;
        ensure!(q == hex(BN254_Q), "BN254 q does not match the BN polynomial");
        ensure!(r == hex(BN254_R), "BN254 r does not match the BN polynomial");
    }
    ensure!(
        hex(SECP256K1_P) == (BigUint::one() << 256) - (BigUint::one() << 32) - 977u32,
        "secp256k1 p"
    );
    ensure!(hex(CURVE25519_P) == (BigUint::one() << 255) - 19u32, "2^255-19");
    ensure!(
        hex(CURVE25519_L)
            == (BigUint::one() << 252)
                + BigUint::parse_bytes(b"27742317777372353535851937790883648493", 10).unwrap(),
        "ed25519 l"
    );
    // Jubjub: #E = 8 r must lie in the Hasse interval of GF(r_bls)
    {
        let q = hex(BLS12_381_R);
        let n = hex(JUBJUB_R) * 8u32;
        let diff = if n > &q + 1u32 { &n - (&q + 1u32) } else { (&q + 1u32) - &n };
        ensure!(&diff * &diff <= &q * 4u32, "8·r_jubjub outside the Hasse interval of GF(r_bls)");
    }

    // -- classical facts -------------------------------------------------------------------------
    // two-adicities: BLS r: 32, BN r: 28, BN q: 1, BLS p: 1, jubjub r: 1, 2^255-19: 2, l: 2,
    // secp256k1 p: 1, n: 6
    for (name, h, s) in [
        ("bls r", BLS12_381_R, 32u32),
        ("bn r", BN254_R, 28),
        ("bn q", BN254_Q, 1),
        ("bls p", BLS12_381_P, 1),
        ("jubjub r", JUBJUB_R, 1),
        ("2^255-19", CURVE25519_P, 2),
        ("l", CURVE25519_L, 2),
        ("secp p", SECP256K1_P, 1),
        ("secp n", SECP256K1_N, 6),
    ] {
        let f = RefPrime::from_hex(h);
        ensure!(f.two_adicity().0 == s, "{name}: two-adicity {} expected {s}", f.two_adicity().0);
    }
    // quadratic character of −1 and 2: (−1/p) = 1 iff p ≡ 1 (4); (2/p) = 1 iff p ≡ ±1 (8)
    for h in [
        BLS12_381_P,
        BLS12_381_R,
        JUBJUB_R,
        SECP256K1_P,
        SECP256K1_N,
        CURVE25519_P,
        CURVE25519_L,
        BN254_Q,
        BN254_R,
    ] {
        let f = RefPrime::from_hex(h);
        let m1 = &f.p - 1u32;
        let want_m1 = if (&f.p % 4u32) == big(1) { 1 } else { -1 };
        ensure!(f.legendre(&m1) == want_m1, "(-1/p) for {h}");
        let r8 = (&f.p % 8u32).to_u64_digits().first().copied().unwrap_or(0);
        let want_2 = if r8 == 1 || r8 == 7 { 1 } else { -1 };
        ensure!(f.legendre(&big(2)) == want_2, "(2/p) for {h}");
        ensure!(f.legendre(&big(0)) == 0 && f.legendre(&big(1)) == 1 && f.legendre(&big(4)) == 1, "trivial symbols {h}");
        // 7 generates GF(r_bls)*, 5 generates GF(r_bn)* — at least they must be non-squares
        // sqrt round trips and inverse cross-check on a few fixed values
        for v in [2u64, 3, 5, 7, 0xdead_beef, u64::MAX] {
            let v = f.reduce(&(big(v) * big(0x1_0000_0001) + 12345u32));
            let sq = f.square(&v);
            let r = f.sqrt(&sq).ok_or("sqrt of a square failed")?;
            ensure!(r == v || r == f.neg(&v), "sqrt round trip {h}");
            ensure!(f.invert(&v) == f.invert_fermat(&v), "egcd inverse != Fermat inverse {h}");
            ensure!(f.mul(&v, &f.invert(&v).unwrap()).is_one(), "v * v^-1 != 1 {h}");
            ensure!(f.pow(&v, &(&f.p - 1u32)).is_one(), "Fermat little theorem {h}");
            ensure!(f.pow(&v, &f.p) == v, "v^p != v {h}");
            let ns = f.mul(&sq, &f.smallest_nonsquare());
            ensure!(f.sqrt(&ns).is_none(), "sqrt of a non-square succeeded {h}");
        }
        ensure!(f.invert(&big(0)).is_none(), "0 has an inverse");
    }
    ensure!(RefPrime::from_hex(BLS12_381_R).legendre(&big(7)) == -1, "7 must be a non-residue mod r_bls");
    ensure!(RefPrime::from_hex(BN254_R).legendre(&big(5)) == -1, "5 must be a non-residue mod r_bn");
    // wide reduction
    {
        let f = RefPrime::from_hex(BLS12_381_R);
        let mut b = [0u8; 64];
        b[32] = 1; // 2^256
        ensure!(
            f.reduce_le_bytes(&b) == hex("1824b159acc5056f998c4fefecbc4ff55884b7fa0003480200000001fffffffe"),
            "2^256 mod r_bls (published Montgomery R)"
        );
    }

    // -- towers ----------------------------------------------------------------------------------
    for (name, f2, f6, f12) in [
        ("bls12-381", bls12_381_fp2(), bls12_381_fp6(), bls12_381_fp12()),
        ("bn254", bn254_fq2(), bn254_fq6(), bn254_fq12()),
    ] {
        ensure!(f2.degree() == 2 && f6.degree() == 6 && f12.degree() == 12, "{name} degrees");
        let p = f2.p().clone();
        // u² = −1
        let u = vec![big(0), big(1)];
        ensure!(f2.mul(&u, &u) == f2.neg(&f2.one()), "{name}: u^2 != -1");
        // −1 must be a non-residue in Fp (p ≡ 3 mod 4) for u²+1 to be irreducible
        ensure!((&p % 4u32) == big(3), "{name}: p != 3 mod 4");
        // ξ must be neither a square nor a cube in Fp2 (so that v³−ξ, w²−v are irreducible):
        let (xi, f2e) = match &f6 {
            RefField::Ext(e) => (e.nonres.clone(), e.base.clone()),
            _ => unreachable!(),
        };
        let q2m1 = f2e.order() - 1u32;
        ensure!(f2e.pow(&xi, &(&q2m1 >> 1)) != f2e.one(), "{name}: xi is a square in Fp2");
        ensure!((&q2m1 % 3u32).is_zero(), "{name}: 3 does not divide p^2-1");
        ensure!(f2e.pow(&xi, &(&q2m1 / 3u32)) != f2e.one(), "{name}: xi is a cube in Fp2");
        // v³ = ξ, w² = v
        let mut v = f6.zero();
        v[2] = big(1);
        let v3 = f6.mul(&f6.mul(&v, &v), &v);
        let mut xi6 = f6.zero();
        xi6[..2].clone_from_slice(&xi);
        ensure!(v3 == xi6, "{name}: v^3 != xi");
        let mut w = f12.zero();
        w[6] = big(1);
        let mut v12 = f12.zero();
        v12[2] = big(1);
        ensure!(f12.mul(&w, &w) == v12, "{name}: w^2 != v");
        // inverse, Frobenius, Lagrange on a fixed pseudo-random element of each level
        for f in [&f2, &f6, &f12] {
            let x: El = (0..f.degree())
                .map(|i| (big(0x9e37_79b9_7f4a_7c15) * big(i as u64 + 3)).modpow(&big(7), &p))
                .collect();
            let y = f.invert(&x).ok_or("tower inverse failed")?;
            ensure!(f.mul(&x, &y) == f.one(), "{name}: x * x^-1 != 1 (degree {})", f.degree());
            ensure!(f.invert(&f.zero()).is_none(), "{name}: zero inverted");
            // (a+b)(a−b) = a² − b²
            let b: El = x.iter().rev().cloned().collect();
            ensure!(
                f.mul(&f.add(&x, &b), &f.sub(&x, &b)) == f.sub(&f.square(&x), &f.square(&b)),
                "{name}: ring identity"
            );
            if f.degree() <= 6 {
                // x^(|K|) = x  (Frobenius of full degree is the identity)
                ensure!(f.frobenius(&x, f.degree()) == f.reduce(&x), "{name}: x^(p^deg) != x");
            }
        }
        // Fp2 square roots
        let x = vec![big(3), big(5)];
        let sq = f2.square(&x);
        let r = f2.sqrt(&sq).ok_or("Fp2 sqrt failed")?;
        ensure!(r == x || r == f2.neg(&x), "{name}: Fp2 sqrt round trip");
        ensure!(f2.legendre(&sq) == 1, "{name}: Fp2 legendre of a square");
        ensure!(f2.sqrt(&f2.mul(&sq, &xi)).is_none(), "{name}: Fp2 sqrt of non-square");
        ensure!(f2.legendre(&f2.mul(&sq, &xi)) == -1, "{name}: Fp2 legendre of a non-square");
        // every element of Fp is a square in Fp2
        let ns = f2.from_int(&f2.prime_field().smallest_nonsquare());
        let r = f2.sqrt(&ns).ok_or("sqrt of base non-residue in Fp2")?;
        ensure!(f2.square(&r) == ns, "{name}: sqrt of a base-field non-residue in Fp2");
    }
    Ok(())
}
