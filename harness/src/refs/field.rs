//! reference model: field (see DESIGN.md §4 E7)
