//! Reference models (DESIGN.md §4 E7). Independent, deliberately naive definitions.
pub mod curve;
pub mod field;
pub mod poly;
pub mod poseidon;
pub mod regex;
