//! Reference models (DESIGN.md §4 E7).
