//! reference model: poly (see DESIGN.md §4 E7)
//!
//! Deliberately naive, independent definitions used as oracles by C12 / C14:
//!   * scalar multiplication by double-and-add over the bits of the scalar, on top of the library's
//!     *single* point addition and doubling only (those two are checked by C11);
//!   * naive multi-scalar multiplication  Σ sᵢ·Bᵢ;
//!   * naive O(n²) discrete Fourier transform over a field / over a group, given ω;
//!   * schoolbook polynomial add / mul / Horner evaluation / long division / Lagrange
//!     interpolation / direct Lagrange-basis evaluation.
//!
//! Nothing here calls a multi-scalar multiplication, an FFT, a batch inversion, `pow` or a scalar
//! multiplication of the library.

use ff::{Field, PrimeField};
use group::Group;

// ---------------------------------------------------------------------------------------------
// scalars as bit strings
// ---------------------------------------------------------------------------------------------

/// Little-endian bytes of the canonical integer representative of `s`.
///
/// `PrimeField::to_repr` has an implementation-defined endianness; it is determined here from the
/// representation of 1 (first byte set ⇒ little endian, last byte set ⇒ big endian).
pub fn le_bytes<F: PrimeField>(s: &F) -> Vec<u8> {
    let one = F::ONE.to_repr();
    let one = one.as_ref();
    let mut v = s.to_repr().as_ref().to_vec();
    if one[0] == 1 {
        // little endian
    } else if one[one.len() - 1] == 1 {
        v.reverse();
    } else {
        panic!("refs::poly::le_bytes: cannot determine the endianness of to_repr");
    }
    v
}

/// Bits of the canonical representative of `s`, least significant first.
pub fn le_bits<F: PrimeField>(s: &F) -> Vec<bool> {
    let mut bits = Vec::new();
    for b in le_bytes(s) {
        for i in 0..8 {
            bits.push((b >> i) & 1 == 1);
        }
    }
    bits
}

/// `s · p` by left-to-right double-and-add (uses `Group::double` and `+` only).
pub fn scalar_mul<G: Group>(p: &G, s: &G::Scalar) -> G {
    let mut acc = G::identity();
    for bit in le_bits(s).into_iter().rev() {
        acc = acc.double();
        if bit {
            acc = acc + *p;
        }
    }
    acc
}

/// Naive multi-scalar multiplication Σ sᵢ·Bᵢ (term by term, in order).
pub fn naive_msm<G: Group>(scalars: &[G::Scalar], bases: &[G]) -> G {
    assert_eq!(scalars.len(), bases.len(), "refs::poly::naive_msm: caller error");
    let mut acc = G::identity();
    for (s, b) in scalars.iter().zip(bases.iter()) {
        acc = acc + scalar_mul(b, s);
    }
    acc
}

/// Σ aᵢ·bᵢ in the field.
pub fn inner_product<F: Field>(a: &[F], b: &[F]) -> F {
    assert_eq!(a.len(), b.len());
    let mut acc = F::ZERO;
    for (x, y) in a.iter().zip(b.iter()) {
        acc += *x * *y;
    }
    acc
}

// ---------------------------------------------------------------------------------------------
// field helpers
// ---------------------------------------------------------------------------------------------

/// `x^e` by square-and-multiply (own implementation; does not call `Field::pow`).
pub fn pow_u64<F: Field>(x: F, e: u64) -> F {
    let mut acc = F::ONE;
    for i in (0..64).rev() {
        acc = acc * acc;
        if (e >> i) & 1 == 1 {
            acc *= x;
        }
    }
    acc
}

/// `x^e` for a signed exponent (`x` must be invertible when `e < 0`).
pub fn pow_i64<F: Field>(x: F, e: i64) -> F {
    if e >= 0 {
        pow_u64(x, e as u64)
    } else {
        let inv: F = Option::from(x.invert()).expect("refs::poly::pow_i64: zero base");
        pow_u64(inv, e.unsigned_abs())
    }
}

/// The primitive 2^log_n-th root of unity derived from `F::ROOT_OF_UNITY` by repeated squaring.
pub fn root_of_unity<F: PrimeField>(log_n: u32) -> F {
    assert!(log_n <= F::S);
    let mut w = F::ROOT_OF_UNITY;
    for _ in log_n..F::S {
        w = w * w;
    }
    w
}

/// `true` iff `w` has multiplicative order exactly `2^log_n`.
pub fn has_order_pow2<F: Field>(w: F, log_n: u32) -> bool {
    if log_n == 0 {
        return w == F::ONE;
    }
    let mut t = w;
    for _ in 0..(log_n - 1) {
        t = t * t;
    }
    t == -F::ONE
}

// ---------------------------------------------------------------------------------------------
// naive DFT
// ---------------------------------------------------------------------------------------------

/// Naive DFT over a field: out[j] = Σᵢ a[i]·ω^{ij}.
pub fn naive_dft<F: Field>(a: &[F], omega: F) -> Vec<F> {
    let n = a.len();
    let mut out = Vec::with_capacity(n);
    let mut wj = F::ONE; // ω^j
    for _ in 0..n {
        // Σ a[i] (ω^j)^i, by explicit powers (not Horner, to stay a literal transcription)
        let mut acc = F::ZERO;
        let mut p = F::ONE;
        for ai in a.iter() {
            acc += *ai * p;
            p *= wj;
        }
        out.push(acc);
        wj *= omega;
    }
    out
}

/// Naive DFT over a group with scalars in its scalar field: out[j] = Σᵢ ω^{ij}·a[i].
pub fn naive_dft_group<G: Group>(a: &[G], omega: G::Scalar) -> Vec<G> {
    let n = a.len();
    let mut out = Vec::with_capacity(n);
    let mut wj = G::Scalar::ONE;
    for _ in 0..n {
        let mut acc = G::identity();
        let mut p = G::Scalar::ONE;
        for ai in a.iter() {
            acc = acc + scalar_mul(ai, &p);
            p *= wj;
        }
        out.push(acc);
        wj *= omega;
    }
    out
}

// ---------------------------------------------------------------------------------------------
// schoolbook polynomial algebra (coefficient vectors, lowest degree first)
// ---------------------------------------------------------------------------------------------

/// Removes trailing zero coefficients.
pub fn trim<F: Field>(mut a: Vec<F>) -> Vec<F> {
    while let Some(last) = a.last() {
        if bool::from(last.is_zero()) {
            a.pop();
        } else {
            break;
        }
    }
    a
}

/// Equality as polynomials (trailing zeros ignored).
pub fn poly_eq<F: Field>(a: &[F], b: &[F]) -> bool {
    trim(a.to_vec()) == trim(b.to_vec())
}

pub fn poly_add<F: Field>(a: &[F], b: &[F]) -> Vec<F> {
    let n = a.len().max(b.len());
    let mut out = vec![F::ZERO; n];
    for (i, x) in a.iter().enumerate() {
        out[i] += *x;
    }
    for (i, x) in b.iter().enumerate() {
        out[i] += *x;
    }
    out
}

pub fn poly_sub<F: Field>(a: &[F], b: &[F]) -> Vec<F> {
    let n = a.len().max(b.len());
    let mut out = vec![F::ZERO; n];
    for (i, x) in a.iter().enumerate() {
        out[i] += *x;
    }
    for (i, x) in b.iter().enumerate() {
        out[i] -= *x;
    }
    out
}

pub fn poly_scale<F: Field>(a: &[F], c: F) -> Vec<F> {
    a.iter().map(|x| *x * c).collect()
}

/// Schoolbook product.
pub fn poly_mul<F: Field>(a: &[F], b: &[F]) -> Vec<F> {
    if a.is_empty() || b.is_empty() {
        return vec![];
    }
    let mut out = vec![F::ZERO; a.len() + b.len() - 1];
    for (i, x) in a.iter().enumerate() {
        if bool::from(x.is_zero()) {
            continue;
        }
        for (j, y) in b.iter().enumerate() {
            out[i + j] += *x * *y;
        }
    }
    out
}

/// Horner evaluation.
pub fn poly_eval<F: Field>(a: &[F], x: F) -> F {
    let mut acc = F::ZERO;
    for c in a.iter().rev() {
        acc = acc * x + *c;
    }
    acc
}

/// Evaluation as the literal sum Σ aᵢ xⁱ (second, differently shaped definition used to
/// cross-check Horner inside the harness).
pub fn poly_eval_powers<F: Field>(a: &[F], x: F) -> F {
    let mut acc = F::ZERO;
    let mut p = F::ONE;
    for c in a.iter() {
        acc += *c * p;
        p *= x;
    }
    acc
}

/// Polynomial long division: returns `(q, r)` with `a = q·d + r`, `deg r < deg d`.
/// `d` must be non-zero.
pub fn poly_divrem<F: Field>(a: &[F], d: &[F]) -> (Vec<F>, Vec<F>) {
    let d = trim(d.to_vec());
    assert!(!d.is_empty(), "refs::poly::poly_divrem: division by the zero polynomial");
    let mut r = trim(a.to_vec());
    let dl = d.len();
    let lead_inv: F = Option::from(d[dl - 1].invert()).unwrap();
    if r.len() < dl {
        return (vec![], r);
    }
    let mut q = vec![F::ZERO; r.len() - dl + 1];
    while r.len() >= dl {
        let shift = r.len() - dl;
        let c = r[r.len() - 1] * lead_inv;
        q[shift] = c;
        for (i, di) in d.iter().enumerate() {
            r[shift + i] -= c * *di;
        }
        // the leading coefficient is now zero by construction
        debug_assert!(bool::from(r[r.len() - 1].is_zero()));
        r.pop();
        r = trim(r);
    }
    (q, r)
}

/// The vanishing polynomial X^n − 1 as a coefficient vector.
pub fn vanishing<F: Field>(n: usize) -> Vec<F> {
    let mut v = vec![F::ZERO; n + 1];
    v[0] = -F::ONE;
    v[n] = F::ONE;
    v
}

/// Π (X − zᵢ).
pub fn poly_from_roots<F: Field>(roots: &[F]) -> Vec<F> {
    let mut p = vec![F::ONE];
    for z in roots {
        p = poly_mul(&p, &[-*z, F::ONE]);
    }
    p
}

/// Lagrange interpolation by the textbook formula Σⱼ yⱼ Π_{k≠j} (X − x_k)/(x_j − x_k).
/// Points must be pairwise distinct. Returns exactly `points.len()` coefficients.
pub fn lagrange_interpolate<F: Field>(points: &[F], evals: &[F]) -> Vec<F> {
    assert_eq!(points.len(), evals.len());
    let n = points.len();
    let mut out = vec![F::ZERO; n];
    for j in 0..n {
        let mut num = vec![F::ONE];
        let mut den = F::ONE;
        for k in 0..n {
            if k == j {
                continue;
            }
            num = poly_mul(&num, &[-points[k], F::ONE]);
            den *= points[j] - points[k];
        }
        let den_inv: F =
            Option::from(den.invert()).expect("refs::poly::lagrange_interpolate: repeated point");
        let c = evals[j] * den_inv;
        for (o, x) in out.iter_mut().zip(num.iter()) {
            *o += *x * c;
        }
    }
    out
}

/// Direct evaluation at `x` of the i-th Lagrange basis polynomial of the domain
/// {ω^0, …, ω^{n−1}}:  L_i(x) = Π_{j≠i} (x − ω^j) / (ω^i − ω^j).
pub fn lagrange_basis_eval<F: Field>(omega: F, n: usize, i: usize, x: F) -> F {
    assert!(i < n);
    let mut pts = Vec::with_capacity(n);
    let mut w = F::ONE;
    for _ in 0..n {
        pts.push(w);
        w *= omega;
    }
    let mut num = F::ONE;
    let mut den = F::ONE;
    for j in 0..n {
        if j == i {
            continue;
        }
        num *= x - pts[j];
        den *= pts[i] - pts[j];
    }
    let den_inv: F = Option::from(den.invert()).unwrap();
    num * den_inv
}

/// Index `i` (possibly negative or ≥ n) reduced into `0..n`.
pub fn wrap_index(i: i64, n: usize) -> usize {
    i.rem_euclid(n as i64) as usize
}

#[cfg(test)]
mod tests {
    use super::*;
    use midnight_curves::Fq;

    #[test]
    fn divrem_roundtrip() {
        let a: Vec<Fq> = (1..10u64).map(Fq::from).collect();
        let d: Vec<Fq> = vec![Fq::from(3), Fq::from(0), Fq::from(2)];
        let (q, r) = poly_divrem(&a, &d);
        assert!(poly_eq(&poly_add(&poly_mul(&q, &d), &r), &a));
        assert!(trim(r).len() < 3);
    }

    #[test]
    fn interpolate_roundtrip() {
        let pts: Vec<Fq> = (2..7u64).map(Fq::from).collect();
        let ev: Vec<Fq> = (10..15u64).map(|x| Fq::from(x * x)).collect();
        let p = lagrange_interpolate(&pts, &ev);
        for (x, y) in pts.iter().zip(ev.iter()) {
            assert_eq!(poly_eval(&p, *x), *y);
            assert_eq!(poly_eval_powers(&p, *x), *y);
        }
    }
}
