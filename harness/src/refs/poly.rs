//! reference model: poly (see DESIGN.md §4 E7)
