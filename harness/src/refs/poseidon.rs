//! reference model: poseidon (see DESIGN.md §4 E7)
//!
//! A deliberately plain Poseidon over the BLS12-381 scalar field, written from the Poseidon
//! paper (Grassi, Khovratovich, Rechberger, Roy, Schofnegger, USENIX Security 2021) and its
//! parameter-generation script `generate_parameters_grain.sage`:
//!
//! * parameters as the repository states them (`circuits/src/hash/poseidon/constants`): GF(p) with
//!   p = 0x73eda753…00000001 (n = 255 bits), width t = 3, rate 2, capacity 1, R_F = 8 full
//!   rounds (4 + 4), R_P = 60 partial rounds, S-box x^5; script arguments `1 0 255 3 8 60 p`;
//! * round constants and the MDS matrix are *regenerated* here: Grain LFSR in self-shrinking mode
//!   seeded with (field=1, sbox=0, n, t, R_F, R_P, 30 ones), first 160 bits discarded, (R_F+R_P)·t
//!   constants by rejection sampling of n-bit big-endian integers, then the first Cauchy matrix
//!   M[i][j] = 1/(x_i + y_j) from 2t further (reduced, not rejected) samples;
//! * the permutation has no round skipping and no shifted rounds: every round is
//!   AddRoundConstants → S-box (all cells in full rounds, one cell in partial rounds) → M·state.
//!
//! The only field operations used are `+`, `*`, `invert` of `midnight_curves::Fq` (that type is the
//! subject of C10); big-integer work (Grain output → integer → reduction) is done with `num-bigint`.
//!
//! Two conventions are *not* fixed by the paper and are taken from the repository's documentation
//! (`hash/poseidon/mod.rs`, `instructions/sponge.rs`); both are parameters here:
//! * which cell gets the S-box in a partial round: the paper does not number the cells, the
//!   reference script `poseidonperm_x5_255_3.sage` uses cell 0; the repository documents the
//!   last cell (`(x y z^5)·MDS`), see `Params::partial_sbox_index`;
//! * the sponge framing (where the capacity cell lives, what it is initialised with, how the
//!   streaming mode pads): see `hash_fixed` and `Sponge`.

use ff::{Field, PrimeField};
use midnight_curves::Fq as F;
use num_bigint::BigUint;
use num_traits::{One, Zero};

pub const T: usize = 3;
pub const RATE: usize = 2;
pub const R_F: usize = 8;
pub const R_P: usize = 60;
pub const FIELD_BITS: usize = 255;
/// modulus quoted on the script command line in `constants/blstrs.rs`
pub const MODULUS_HEX: &str = "73eda753299d7d483339d80809a1d80553bda402fffe5bfeffffffff00000001";

pub fn modulus() -> BigUint {
    BigUint::parse_bytes(MODULUS_HEX.as_bytes(), 16).unwrap()
}

/// integer (any size) → field element, reduced modulo p
pub fn f_from_big(b: &BigUint) -> F {
    let r = b % modulus();
    let mut bytes = r.to_bytes_le();
    bytes.resize(32, 0);
    let repr: [u8; 32] = bytes.try_into().unwrap();
    Option::<F>::from(F::from_repr(repr)).expect("reduced value is canonical")
}

pub fn big_from_f(f: &F) -> BigUint {
    BigUint::from_bytes_le(f.to_repr().as_ref())
}

pub fn f_from_hex(h: &str) -> F {
    f_from_big(&BigUint::parse_bytes(h.trim_start_matches("0x").as_bytes(), 16).unwrap())
}

pub fn hex_of(f: &F) -> String {
    format!("0x{:064x}", big_from_f(f))
}

// ---------------------------------------------------------------------------------------------
// Grain LFSR (Poseidon paper, appendix "Generating the round constants / matrices")
// ---------------------------------------------------------------------------------------------

pub struct Grain {
    state: std::collections::VecDeque<bool>,
}

fn push_bits(v: &mut Vec<bool>, value: u64, width: usize) {
    for i in (0..width).rev() {
        v.push((value >> i) & 1 == 1);
    }
}

impl Grain {
    /// `field`: 1 = GF(p); `sbox`: 0 = x^alpha; `n`: field size in bits; `t`: width.
    pub fn new(field: u64, sbox: u64, n: u64, t: u64, r_f: u64, r_p: u64) -> Grain {
        let mut bits = Vec::with_capacity(80);
        push_bits(&mut bits, field, 2);
        push_bits(&mut bits, sbox, 4);
        push_bits(&mut bits, n, 12);
        push_bits(&mut bits, t, 12);
        push_bits(&mut bits, r_f, 10);
        push_bits(&mut bits, r_p, 10);
        bits.extend(std::iter::repeat(true).take(30));
        assert_eq!(bits.len(), 80);
        let mut g = Grain {
            state: bits.into_iter().collect(),
        };
        for _ in 0..160 {
            g.clock();
        }
        g
    }

    /// one LFSR step: b_{i+80} = b_{i+62} ⊕ b_{i+51} ⊕ b_{i+38} ⊕ b_{i+23} ⊕ b_{i+13} ⊕ b_i
    fn clock(&mut self) -> bool {
        let s = &self.state;
        let new = s[62] ^ s[51] ^ s[38] ^ s[23] ^ s[13] ^ s[0];
        self.state.pop_front();
        self.state.push_back(new);
        new
    }

    /// self-shrinking output: bits are taken in pairs; a pair (1, b) outputs b, a pair (0, _) nothing
    pub fn next_bit(&mut self) -> bool {
        loop {
            let first = self.clock();
            let second = self.clock();
            if first {
                return second;
            }
        }
    }

    /// next `n` output bits as a big-endian integer
    pub fn next_int(&mut self, n: usize) -> BigUint {
        let mut v = BigUint::zero();
        for _ in 0..n {
            v <<= 1;
            if self.next_bit() {
                v |= BigUint::one();
            }
        }
        v
    }
}

// ---------------------------------------------------------------------------------------------
// Parameters
// ---------------------------------------------------------------------------------------------

#[derive(Clone, Debug)]
pub struct Params {
    pub r_f: usize,
    pub r_p: usize,
    /// `round_constants[r][i]` is added to cell i at the start of round r
    pub round_constants: Vec<[F; T]>,
    /// `state' = mds · state` (column vector)
    pub mds: [[F; T]; T],
    /// cell that goes through the S-box in partial rounds
    pub partial_sbox_index: usize,
    /// how many Cauchy candidates were drawn before this one (the script re-draws when its three
    /// subspace-trail checks fail; those checks are not re-implemented here)
    pub mds_candidate: usize,
    pub source: &'static str,
}

/// Regenerates round constants and the `candidate`-th Cauchy matrix exactly as
/// `generate_parameters_grain.sage 1 0 255 3 <r_f> <r_p> <p>` does.
pub fn generate(r_f: usize, r_p: usize, candidate: usize, partial_sbox_index: usize) -> Params {
    let p = modulus();
    let mut grain = Grain::new(1, 0, FIELD_BITS as u64, T as u64, r_f as u64, r_p as u64);
    let mut flat = Vec::with_capacity((r_f + r_p) * T);
    while flat.len() < (r_f + r_p) * T {
        let v = grain.next_int(FIELD_BITS);
        if v < p {
            flat.push(f_from_big(&v));
        }
    }
    let round_constants: Vec<[F; T]> = flat.chunks(T).map(|c| [c[0], c[1], c[2]]).collect();
    let mut drawn = 0usize;
    let mds = loop {
        // 2t distinct samples (reduced modulo p, no rejection)
        let vals: Vec<F> = loop {
            let v: Vec<F> = (0..2 * T).map(|_| f_from_big(&grain.next_int(FIELD_BITS))).collect();
            let mut distinct = true;
            for i in 0..v.len() {
                for j in 0..i {
                    if v[i] == v[j] {
                        distinct = false;
                    }
                }
            }
            if distinct {
                break v;
            }
        };
        let (xs, ys) = vals.split_at(T);
        let mut m = [[F::ZERO; T]; T];
        let mut ok = true;
        for i in 0..T {
            for j in 0..T {
                let s = xs[i] + ys[j];
                match Option::<F>::from(s.invert()) {
                    Some(inv) => m[i][j] = inv,
                    None => ok = false,
                }
            }
        }
        if !ok {
            continue;
        }
        if drawn == candidate {
            break m;
        }
        drawn += 1;
    };
    Params {
        r_f,
        r_p,
        round_constants,
        mds,
        partial_sbox_index,
        mds_candidate: candidate,
        source: "regenerated (Grain LFSR + Cauchy)",
    }
}

/// Parameters the repository states: R_F = 8, R_P = 60, first Cauchy candidate, S-box on the
/// last cell in partial rounds.
pub fn params_repo_stated() -> Params {
    static CACHE: std::sync::OnceLock<Params> = std::sync::OnceLock::new();
    CACHE.get_or_init(|| generate(R_F, R_P, 0, T - 1)).clone()
}

/// Fallback: a plain permutation over given constant tables.
pub fn params_from_tables(round_constants: Vec<[F; T]>, mds: [[F; T]; T], partial_sbox_index: usize) -> Params {
    assert_eq!(round_constants.len(), R_F + R_P);
    Params {
        r_f: R_F,
        r_p: R_P,
        round_constants,
        mds,
        partial_sbox_index,
        mds_candidate: 0,
        source: "constant tables",
    }
}

// ---------------------------------------------------------------------------------------------
// Permutation
// ---------------------------------------------------------------------------------------------

fn pow5(x: F) -> F {
    let x2 = x * x;
    let x4 = x2 * x2;
    x4 * x
}

fn mat_vec(m: &[[F; T]; T], v: &[F; T]) -> [F; T] {
    let mut out = [F::ZERO; T];
    for i in 0..T {
        let mut acc = F::ZERO;
        for j in 0..T {
            acc += m[i][j] * v[j];
        }
        out[i] = acc;
    }
    out
}

/// POSEIDON^π: R_F/2 full rounds, R_P partial rounds, R_F/2 full rounds.
pub fn permute(p: &Params, state: &mut [F; T]) {
    let half = p.r_f / 2;
    for r in 0..p.r_f + p.r_p {
        for i in 0..T {
            state[i] += p.round_constants[r][i];
        }
        let full = r < half || r >= half + p.r_p;
        if full {
            for i in 0..T {
                state[i] = pow5(state[i]);
            }
        } else {
            let i = p.partial_sbox_index;
            state[i] = pow5(state[i]);
        }
        *state = mat_vec(&p.mds, state);
    }
}

// ---------------------------------------------------------------------------------------------
// Sponge framings (repository conventions over the textbook permutation)
// ---------------------------------------------------------------------------------------------

/// value of the capacity cell for the streaming (transcript) mode: 2^64
pub fn streaming_tag() -> F {
    f_from_big(&(BigUint::one() << 64))
}

/// Fixed-length hash of `inputs` (documented in `instructions/sponge.rs` / `hash/poseidon`):
/// rate cells 0..RATE start at 0, the capacity cell (index RATE) starts at the number of inputs;
/// the message is absorbed RATE elements at a time by addition into the rate cells (a short last
/// block touches only its own cells, i.e. zero padding), each block followed by one permutation;
/// the digest is rate cell 0. (Consequence: the empty message absorbs no block and hashes to 0.)
pub fn hash_fixed(p: &Params, inputs: &[F]) -> F {
    let mut st = [F::ZERO; T];
    st[RATE] = F::from(inputs.len() as u64);
    for block in inputs.chunks(RATE) {
        for (cell, x) in st.iter_mut().zip(block) {
            *cell += *x;
        }
        permute(p, &mut st);
    }
    st[0]
}

/// Streaming sponge used as transcript hash (`TranscriptHash for PoseidonState`): the capacity cell
/// starts at 2^64. A squeeze that follows absorbs first appends the *number of pending elements*
/// as one more element, absorbs everything pending block-wise (as in `hash_fixed`) and outputs rate
/// cell 0; further squeezes hand out the remaining rate cells in order; once the rate cells are
/// used up, the next squeeze runs the absorb step again (on the pending elements, possibly none).
#[derive(Clone)]
pub struct Sponge {
    p: Params,
    st: [F; T],
    pending: Vec<F>,
    /// rate cells still available for output (index of the next one), None = must run absorb step
    next_out: Option<usize>,
}

impl Sponge {
    pub fn new(p: &Params) -> Sponge {
        let mut st = [F::ZERO; T];
        st[RATE] = streaming_tag();
        Sponge {
            p: p.clone(),
            st,
            pending: vec![],
            next_out: None,
        }
    }
    pub fn absorb(&mut self, xs: &[F]) {
        self.pending.extend_from_slice(xs);
        self.next_out = None;
    }
    pub fn squeeze(&mut self) -> F {
        if let Some(i) = self.next_out {
            let out = self.st[i];
            self.next_out = if i + 1 < RATE { Some(i + 1) } else { None };
            return out;
        }
        let count = F::from(self.pending.len() as u64);
        self.pending.push(count);
        let pending = std::mem::take(&mut self.pending);
        for block in pending.chunks(RATE) {
            for (cell, x) in self.st.iter_mut().zip(block) {
                *cell += *x;
            }
            permute(&self.p, &mut self.st);
        }
        self.next_out = if RATE > 1 { Some(1) } else { None };
        self.st[0]
    }
}

// ---------------------------------------------------------------------------------------------
// Self test (published vector of the reference implementation)
// ---------------------------------------------------------------------------------------------

/// Checks the generator and the permutation against the published instance
/// `poseidonperm_x5_255_3` of the reference implementation (same field, t = 3, R_F = 8,
/// R_P = 57, S-box on cell 0): first round constants, MDS entries and the test vector
/// permutation(0, 1, 2). Returns a description of the first mismatch.
pub fn selftest() -> Result<(), String> {
    // field glue
    if f_from_big(&(modulus() - BigUint::one())) + F::ONE != F::ZERO {
        return Err("modulus constant is not the modulus of midnight_curves::Fq".into());
    }
    if f_from_big(&BigUint::from(7u8)) != F::from(7u64) || big_from_f(&F::from(258u64)) != BigUint::from(258u32) {
        return Err("to_repr/from_repr are not little-endian".into());
    }
    let p = generate(8, 57, 0, 0);
    let rc_expected = [
        "0x6c4ffa723eaf1a7bf74905cc7dae4ca9ff4a2c3bc81d42e09540d1f250910880",
        "0x54dd837eccf180c92c2f53a3476e45a156ab69a403b6b9fdfd8dd970fddcdd9a",
        "0x64f56d735286c35f0e7d0a29680d49d54fb924adccf8962eeee225bf9423a85e",
    ];
    for (i, h) in rc_expected.iter().enumerate() {
        if p.round_constants[0][i] != f_from_hex(h) {
            return Err(format!("round constant {i} of poseidonperm_x5_255_3: got {}, published {h}", hex_of(&p.round_constants[0][i])));
        }
    }
    let mds_expected = [
        [
            "0x3d955d6c02fe4d7cb500e12f2b55eff668a7b4386bd27413766713c93f2acfcd",
            "0x3798866f4e6058035dcf8addb2cf1771fac234bcc8fc05d6676e77e797f224bf",
            "0x2c51456a7bf2467eac813649f3f25ea896eac27c5da020dae54a6e640278fda2",
        ],
        [
            "0x20088ca07bbcd7490a0218ebc0ecb31d0ea34840e2dc2d33a1a5adfecff83b43",
            "0x1d04ba0915e7807c968ea4b1cb2d610c7f9a16b4033f02ebacbb948c86a988c3",
            "0x5387ccd5729d7acbd09d96714d1d18bbd0eeaefb2ddee3d2ef573c9c7f953307",
        ],
        [
            "0x1e208f585a72558534281562cad89659b428ec61433293a8d7f0f0e38a6726ac",
            "0x0455ebf862f0b60f69698e97d36e8aafd4d107cae2b61be1858b23a3363642e0",
            "0x569e2c206119e89455852059f707370e2c1fc9721f6c50991cedbbf782daef54",
        ],
    ];
    for i in 0..T {
        for j in 0..T {
            if p.mds[i][j] != f_from_hex(mds_expected[i][j]) {
                return Err(format!("MDS[{i}][{j}] of poseidonperm_x5_255_3: got {}, published {}", hex_of(&p.mds[i][j]), mds_expected[i][j]));
            }
        }
    }
    let mut st = [F::from(0u64), F::from(1u64), F::from(2u64)];
    permute(&p, &mut st);
    let out_expected = [
        "0x28ce19420fc246a05553ad1e8c98f5c9d67166be2c18e9e4cb4b4e317dd2a78a",
        "0x51f3e312c95343a896cfd8945ea82ba956c1118ce9b9859b6ea56637b4b1ddc4",
        "0x3b2b69139b235626a0bfb56c9527ae66a7bf486ad8c11c14d1da0c69bbe0f79a",
    ];
    for i in 0..T {
        if st[i] != f_from_hex(out_expected[i]) {
            return Err(format!("permutation(0,1,2)[{i}] of poseidonperm_x5_255_3: got {}, published {}", hex_of(&st[i]), out_expected[i]));
        }
    }
    // the sponge framings are exercised for internal consistency only (they are repository conventions)
    let q = params_repo_stated();
    if hash_fixed(&q, &[]) != F::ZERO {
        return Err("hash_fixed(empty) must be the untouched rate cell".into());
    }
    let mut s = Sponge::new(&q);
    s.absorb(&[F::ONE]);
    let a = s.squeeze();
    let mut st2 = [F::ONE, F::ONE, streaming_tag()];
    permute(&q, &mut st2);
    if a != st2[0] || s.squeeze() != st2[1] {
        return Err("streaming sponge inconsistent with the permutation".into());
    }
    Ok(())
}
