//! reference model: poseidon (see DESIGN.md §4 E7)
