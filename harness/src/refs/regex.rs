//! reference model: regex (see DESIGN.md §4 E7)
