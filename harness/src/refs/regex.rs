//! Reference model for C19: regular expressions with markers (DESIGN.md §4 E7).
//!
//! * `RefRe` — expression tree over *marked letters* `(byte, marker)` with Brzozowski-derivative
//!   semantics (`nullable`, `deriv`), smart constructors (ACI of union, flattening) so that the
//!   derivative automaton is finite.
//! * builder functions mirroring every public combinator of the library's `RegexInstructions`
//!   (derived combinators are defined natively here, e.g. bounded repetition is a `Rep` node,
//!   not a union of concatenations).
//! * `Recipe` — a serialisable description of one expression from which both the library `Regex`
//!   (interpreter lives in `bin/c19.rs`) and the `RefRe` (`Recipe::to_ref`) are built.
//! * `RefAut` — marked derivative automaton over byte classes, liveness, sequential
//!   output-determinism, product with a compiled DFA (`LibDfa`).
//! * `match_markers` (derivative DP) and `naive_match` (span-based denotational matcher,
//!   independent of the derivative code) for witnesses and self-checks.
//!
//! Semantics of markers (library docs, `regex.rs`): an expression denotes a set of *marked words*
//! (one marker per byte, 0 = no marker). Intersection unifies position-wise: equal markers, or
//! one of them 0 (the non-zero wins); complement is taken among unmarked words and its operand
//! carries no markers.

use std::collections::{BTreeMap, BTreeSet, HashMap, VecDeque};
use std::sync::Arc;

use rand::Rng;
use serde::{Deserialize, Serialize};

pub type Marker = usize;
pub type Letter = (u8, Marker);

#[derive(Clone, PartialEq, Eq, Hash, PartialOrd, Ord, Debug)]
pub enum RefRe {
    Empty,
    Eps,
    /// non-empty, sorted, de-duplicated set of marked letters
    Set(Arc<Vec<Letter>>),
    Cat(Arc<Vec<RefRe>>),
    Alt(Arc<Vec<RefRe>>),
    And(Arc<Vec<RefRe>>),
    Not(Arc<RefRe>),
    Star(Arc<RefRe>),
    /// between lo and hi copies (hi >= 1)
    Rep(Arc<RefRe>, usize, usize),
}

use RefRe::*;

// ---------------------------------------------------------------------------------------------
// smart constructors
// ---------------------------------------------------------------------------------------------

impl RefRe {
    pub fn set(mut l: Vec<Letter>) -> RefRe {
        l.sort();
        l.dedup();
        if l.is_empty() {
            Empty
        } else {
            Set(Arc::new(l))
        }
    }

    /// all unmarked words
    pub fn sigma_star() -> RefRe {
        Star(Arc::new(RefRe::set((0..=255u8).map(|b| (b, 0)).collect())))
    }

    fn is_sigma_star(&self) -> bool {
        if let Star(r) = self {
            if let Set(l) = &**r {
                return l.len() == 256 && l.iter().all(|(_, m)| *m == 0);
            }
        }
        false
    }

    pub fn mk_cat(items: Vec<RefRe>) -> RefRe {
        let mut out: Vec<RefRe> = Vec::with_capacity(items.len());
        for it in items {
            match it {
                Empty => return Empty,
                Eps => {}
                Cat(v) => out.extend(v.iter().cloned()),
                x => out.push(x),
            }
        }
        match out.len() {
            0 => Eps,
            1 => out.pop().unwrap(),
            _ => Cat(Arc::new(out)),
        }
    }

    pub fn mk_alt(items: Vec<RefRe>) -> RefRe {
        let mut out: Vec<RefRe> = Vec::with_capacity(items.len());
        for it in items {
            match it {
                Empty => {}
                Alt(v) => out.extend(v.iter().cloned()),
                x => out.push(x),
            }
        }
        out.sort();
        out.dedup();
        match out.len() {
            0 => Empty,
            1 => out.pop().unwrap(),
            _ => Alt(Arc::new(out)),
        }
    }

    /// n-ary intersection with marker unification. Commutative and associative (the result marker
    /// at a position is the common non-zero marker, or 0); NOT idempotent on output-ambiguous
    /// operands, hence no de-duplication.
    pub fn mk_and(items: Vec<RefRe>) -> RefRe {
        let mut out: Vec<RefRe> = Vec::with_capacity(items.len());
        for it in items {
            match it {
                Empty => return Empty,
                And(v) => out.extend(v.iter().cloned()),
                x if x.is_sigma_star() => {}
                x => out.push(x),
            }
        }
        // intersection with {epsilon} (which carries no marker) is {epsilon} or empty
        if out.iter().any(|x| *x == Eps) {
            return if out.iter().all(|x| x.nullable()) { Eps } else { Empty };
        }
        out.sort();
        match out.len() {
            0 => RefRe::sigma_star(),
            1 => out.pop().unwrap(),
            _ => And(Arc::new(out)),
        }
    }

    pub fn mk_not(r: RefRe) -> RefRe {
        match r {
            Not(x) => (*x).clone(),
            Empty => RefRe::sigma_star(),
            x if x.is_sigma_star() => Empty,
            x => Not(Arc::new(x)),
        }
    }

    pub fn mk_star(r: RefRe) -> RefRe {
        match r {
            Empty | Eps => Eps,
            Star(x) => Star(x),
            x => Star(Arc::new(x)),
        }
    }

    pub fn mk_rep(r: RefRe, lo: usize, hi: usize) -> RefRe {
        assert!(lo <= hi);
        if hi == 0 {
            return Eps;
        }
        match r {
            Empty => {
                if lo == 0 {
                    Eps
                } else {
                    Empty
                }
            }
            Eps => Eps,
            x => {
                if lo == 1 && hi == 1 {
                    x
                } else {
                    Rep(Arc::new(x), lo, hi)
                }
            }
        }
    }

    pub fn nullable(&self) -> bool {
        match self {
            Empty => false,
            Eps => true,
            Set(_) => false,
            Cat(v) => v.iter().all(|r| r.nullable()),
            Alt(v) => v.iter().any(|r| r.nullable()),
            And(v) => v.iter().all(|r| r.nullable()),
            Not(r) => !r.nullable(),
            Star(_) => true,
            Rep(r, lo, _) => *lo == 0 || r.nullable(),
        }
    }

    /// Brzozowski derivative with respect to the marked letter `(b, m)`.
    pub fn deriv(&self, b: u8, m: Marker) -> RefRe {
        match self {
            Empty | Eps => Empty,
            Set(l) => {
                if l.binary_search(&(b, m)).is_ok() {
                    Eps
                } else {
                    Empty
                }
            }
            Cat(v) => {
                let mut alts = vec![];
                for i in 0..v.len() {
                    let d = v[i].deriv(b, m);
                    if d != Empty {
                        let mut items = Vec::with_capacity(v.len() - i);
                        items.push(d);
                        items.extend(v[i + 1..].iter().cloned());
                        alts.push(RefRe::mk_cat(items));
                    }
                    if !v[i].nullable() {
                        break;
                    }
                }
                RefRe::mk_alt(alts)
            }
            Alt(v) => RefRe::mk_alt(v.iter().map(|r| r.deriv(b, m)).collect()),
            And(v) => {
                if m == 0 {
                    RefRe::mk_and(v.iter().map(|r| r.deriv(b, 0)).collect())
                } else {
                    // every component reads (b,m) or (b,0); at least one reads (b,m)
                    let a: Vec<RefRe> = v.iter().map(|r| r.deriv(b, m)).collect();
                    let z: Vec<RefRe> = v.iter().map(|r| r.deriv(b, 0)).collect();
                    let n = v.len();
                    let mut alts = vec![];
                    'mask: for mask in 1u32..(1u32 << n) {
                        let mut items = Vec::with_capacity(n);
                        for i in 0..n {
                            let c = if mask >> i & 1 == 1 { &a[i] } else { &z[i] };
                            if *c == Empty {
                                continue 'mask;
                            }
                            items.push(c.clone());
                        }
                        alts.push(RefRe::mk_and(items));
                    }
                    RefRe::mk_alt(alts)
                }
            }
            Not(r) => {
                if m == 0 {
                    RefRe::mk_not(r.deriv(b, 0))
                } else {
                    Empty
                }
            }
            Star(r) => RefRe::mk_cat(vec![r.deriv(b, m), self.clone()]),
            Rep(r, lo, hi) => RefRe::mk_cat(vec![
                r.deriv(b, m),
                RefRe::mk_rep((**r).clone(), lo.saturating_sub(1), hi - 1),
            ]),
        }
    }

    fn visit_sets<'a>(&'a self, f: &mut impl FnMut(&'a Arc<Vec<Letter>>)) {
        match self {
            Empty | Eps => {}
            Set(l) => f(l),
            Cat(v) | Alt(v) | And(v) => v.iter().for_each(|r| r.visit_sets(f)),
            Not(r) | Star(r) | Rep(r, _, _) => r.visit_sets(f),
        }
    }

    pub fn has_markers(&self) -> bool {
        let mut any = false;
        self.visit_sets(&mut |l| any |= l.iter().any(|(_, m)| *m != 0));
        any
    }

    pub fn has_not(&self) -> bool {
        match self {
            Not(_) => true,
            Empty | Eps | Set(_) => false,
            Cat(v) | Alt(v) | And(v) => v.iter().any(|r| r.has_not()),
            Star(r) | Rep(r, _, _) => r.has_not(),
        }
    }

    pub fn size(&self) -> usize {
        match self {
            Empty | Eps | Set(_) => 1,
            Cat(v) | Alt(v) | And(v) => 1 + v.iter().map(|r| r.size()).sum::<usize>(),
            Not(r) | Star(r) | Rep(r, _, _) => 1 + r.size(),
        }
    }

    /// applies `f` to every letter (the library's `Regex::map`)
    pub fn map_letters(&self, f: &impl Fn(Letter) -> Letter) -> RefRe {
        match self {
            Empty => Empty,
            Eps => Eps,
            Set(l) => RefRe::set(l.iter().map(|x| f(*x)).collect()),
            Cat(v) => RefRe::mk_cat(v.iter().map(|r| r.map_letters(f)).collect()),
            Alt(v) => RefRe::mk_alt(v.iter().map(|r| r.map_letters(f)).collect()),
            And(v) => RefRe::mk_and(v.iter().map(|r| r.map_letters(f)).collect()),
            Not(r) => RefRe::mk_not(r.map_letters(f)),
            Star(r) => RefRe::mk_star(r.map_letters(f)),
            Rep(r, lo, hi) => RefRe::mk_rep(r.map_letters(f), *lo, *hi),
        }
    }
}

// ---------------------------------------------------------------------------------------------
// builders mirroring `RegexInstructions` (same names)
// ---------------------------------------------------------------------------------------------

impl RefRe {
    pub fn byte_from(l: impl IntoIterator<Item = u8>) -> RefRe {
        RefRe::set(l.into_iter().map(|b| (b, 0)).collect())
    }
    pub fn byte_not_from(l: impl IntoIterator<Item = u8>) -> RefRe {
        let ex: BTreeSet<u8> = l.into_iter().collect();
        RefRe::byte_from((0..=255u8).filter(|b| !ex.contains(b)))
    }
    pub fn any_byte() -> RefRe {
        RefRe::byte_from(0..=255u8)
    }
    pub fn word(w: &[u8]) -> RefRe {
        RefRe::mk_cat(w.iter().map(|b| RefRe::byte_from([*b])).collect())
    }
    pub fn digit() -> RefRe {
        RefRe::byte_from(b'0'..=b'9')
    }
    pub fn lowercase_letter() -> RefRe {
        RefRe::byte_from(b'a'..=b'z')
    }
    pub fn uppercase_letter() -> RefRe {
        RefRe::byte_from(b'A'..=b'Z')
    }
    pub fn letter() -> RefRe {
        RefRe::byte_from((b'a'..=b'z').chain(b'A'..=b'Z'))
    }
    pub fn alphanumeric() -> RefRe {
        RefRe::byte_from((b'a'..=b'z').chain(b'A'..=b'Z').chain(b'0'..=b'9'))
    }
    pub fn one_blank() -> RefRe {
        RefRe::byte_from([b' ', b'\t', b'\n'])
    }
    pub fn blanks() -> RefRe {
        RefRe::mk_star(RefRe::one_blank())
    }
    pub fn blanks_strict() -> RefRe {
        RefRe::one_blank().non_empty_list()
    }
    pub fn epsilon() -> RefRe {
        Eps
    }
    pub fn any() -> RefRe {
        RefRe::sigma_star()
    }
    pub fn neg(self) -> RefRe {
        RefRe::mk_not(self)
    }
    pub fn union(l: Vec<RefRe>) -> RefRe {
        RefRe::mk_alt(l)
    }
    pub fn inter(l: Vec<RefRe>) -> RefRe {
        RefRe::mk_and(l)
    }
    pub fn cat(l: Vec<RefRe>) -> RefRe {
        RefRe::mk_cat(l)
    }
    pub fn list(self) -> RefRe {
        RefRe::mk_star(self)
    }
    pub fn non_empty_list(self) -> RefRe {
        RefRe::mk_cat(vec![self.clone(), RefRe::mk_star(self)])
    }
    pub fn optional(self) -> RefRe {
        RefRe::mk_alt(vec![Eps, self])
    }
    pub fn terminated(self, o: RefRe) -> RefRe {
        RefRe::mk_cat(vec![self, o])
    }
    pub fn or(self, o: RefRe) -> RefRe {
        RefRe::mk_alt(vec![self, o])
    }
    pub fn and(self, o: RefRe) -> RefRe {
        RefRe::mk_and(vec![self, o])
    }
    pub fn minus(self, o: RefRe) -> RefRe {
        RefRe::mk_and(vec![self, RefRe::mk_not(o)])
    }
    pub fn delimited(self, open: RefRe, close: RefRe) -> RefRe {
        RefRe::mk_cat(vec![open, self, close])
    }
    /// x (sep x)*
    pub fn separated_non_empty_list(self, sep: RefRe) -> RefRe {
        RefRe::mk_cat(vec![
            self.clone(),
            RefRe::mk_star(RefRe::mk_cat(vec![sep, self])),
        ])
    }
    pub fn separated_list(self, sep: RefRe) -> RefRe {
        self.separated_non_empty_list(sep).optional()
    }
    /// x1 sep x2 sep ... xn (epsilon for n = 0)
    pub fn separated_cat(l: Vec<RefRe>, sep: RefRe) -> RefRe {
        let mut items = vec![];
        for (i, x) in l.into_iter().enumerate() {
            if i > 0 {
                items.push(sep.clone());
            }
            items.push(x);
        }
        RefRe::mk_cat(items)
    }
    /// exactly n copies
    pub fn repeat(self, n: usize) -> RefRe {
        RefRe::mk_rep(self, n, n)
    }
    pub fn repeat_at_most(self, n: usize) -> RefRe {
        RefRe::mk_rep(self, 0, n)
    }
    /// exactly n copies separated by sep (epsilon for n = 0)
    pub fn separated_repeat(self, n: usize, sep: RefRe) -> RefRe {
        if n == 0 {
            return Eps;
        }
        RefRe::mk_cat(vec![
            self.clone(),
            RefRe::mk_rep(RefRe::mk_cat(vec![sep, self]), n - 1, n - 1),
        ])
    }
    /// 0..=n copies separated by sep
    pub fn separated_repeat_at_most(self, n: usize, sep: RefRe) -> RefRe {
        if n == 0 {
            return Eps;
        }
        RefRe::mk_alt(vec![
            Eps,
            RefRe::mk_cat(vec![
                self.clone(),
                RefRe::mk_rep(RefRe::mk_cat(vec![sep, self]), 0, n - 1),
            ]),
        ])
    }
    /// separator " blanks sep blanks "
    fn spaced_sep(sep: RefRe) -> RefRe {
        RefRe::mk_cat(vec![RefRe::blanks(), sep, RefRe::blanks()])
    }
    pub fn mark(&self, f: &impl Fn(u8) -> Option<Marker>) -> RefRe {
        self.map_letters(&|(c, m)| (c, f(c).unwrap_or(m)))
    }
    pub fn replace_markers(&self, f: &impl Fn(Marker) -> Option<Marker>) -> RefRe {
        self.map_letters(&|(c, m)| (c, f(m).unwrap_or(m)))
    }
    /// UTF-8 code point sequences (RFC 3629 table of well-formed byte sequences)
    pub fn utf8_cps() -> RefRe {
        let r = |a: u8, b: u8| RefRe::byte_from(a..=b);
        let tail = || r(0x80, 0xBF);
        RefRe::mk_alt(vec![
            r(0x00, 0x7F),
            RefRe::mk_cat(vec![r(0xC2, 0xDF), tail()]),
            RefRe::mk_cat(vec![r(0xE0, 0xE0), r(0xA0, 0xBF), tail()]),
            RefRe::mk_cat(vec![r(0xE1, 0xEC), tail(), tail()]),
            RefRe::mk_cat(vec![r(0xED, 0xED), r(0x80, 0x9F), tail()]),
            RefRe::mk_cat(vec![r(0xEE, 0xEF), tail(), tail()]),
            RefRe::mk_cat(vec![r(0xF0, 0xF0), r(0x90, 0xBF), tail(), tail()]),
            RefRe::mk_cat(vec![r(0xF1, 0xF3), tail(), tail(), tail()]),
            RefRe::mk_cat(vec![r(0xF4, 0xF4), r(0x80, 0x8F), tail(), tail()]),
        ])
    }
    pub fn utf8() -> RefRe {
        RefRe::mk_star(RefRe::utf8_cps())
    }
    /// RFC 8259 §7 string; the quoted content is marked 1 (library doc of `json_string`)
    pub fn json_string() -> RefRe {
        // unescaped = any UTF-8 code point whose (single-byte) encoding is not a control
        // character, '"' or '\\' — those three classes are all one-byte sequences
        let r = |a: u8, b: u8| RefRe::byte_from(a..=b);
        let tail = || r(0x80, 0xBF);
        let unescaped = RefRe::mk_alt(vec![
            RefRe::byte_from((0x20..=0x7Fu8).filter(|b| *b != b'"' && *b != b'\\')),
            RefRe::mk_cat(vec![r(0xC2, 0xDF), tail()]),
            RefRe::mk_cat(vec![r(0xE0, 0xE0), r(0xA0, 0xBF), tail()]),
            RefRe::mk_cat(vec![r(0xE1, 0xEC), tail(), tail()]),
            RefRe::mk_cat(vec![r(0xED, 0xED), r(0x80, 0x9F), tail()]),
            RefRe::mk_cat(vec![r(0xEE, 0xEF), tail(), tail()]),
            RefRe::mk_cat(vec![r(0xF0, 0xF0), r(0x90, 0xBF), tail(), tail()]),
            RefRe::mk_cat(vec![r(0xF1, 0xF3), tail(), tail(), tail()]),
            RefRe::mk_cat(vec![r(0xF4, 0xF4), r(0x80, 0x8F), tail(), tail()]),
        ]);
        let simple = RefRe::mk_cat(vec![
            RefRe::byte_from([b'\\']),
            RefRe::byte_from(*b"\"\\/bfnrt"),
        ]);
        let hex = RefRe::byte_from((b'0'..=b'9').chain(b'a'..=b'f').chain(b'A'..=b'F'));
        let uni = RefRe::mk_cat(vec![
            RefRe::byte_from([b'\\']),
            RefRe::byte_from([b'u']),
            RefRe::mk_rep(hex, 4, 4),
        ]);
        let content = RefRe::mk_star(RefRe::mk_alt(vec![unescaped, simple, uni]));
        let content = content.mark(&|_| Some(1));
        RefRe::mk_cat(vec![
            RefRe::byte_from([b'"']),
            content,
            RefRe::byte_from([b'"']),
        ])
    }
}

// ---------------------------------------------------------------------------------------------
// Recipe
// ---------------------------------------------------------------------------------------------

/// inclusive byte ranges
#[derive(Clone, Debug, PartialEq, Eq, Hash, Serialize, Deserialize)]
pub struct ByteSet(pub Vec<(u8, u8)>);

impl ByteSet {
    pub fn bytes(&self) -> Vec<u8> {
        let mut v = vec![];
        for (a, b) in &self.0 {
            if a <= b {
                v.extend(*a..=*b);
            }
        }
        v
    }
    pub fn contains(&self, x: u8) -> bool {
        self.0.iter().any(|(a, b)| *a <= x && x <= *b)
    }
    pub fn from_bytes(bs: &[u8]) -> ByteSet {
        ByteSet(bs.iter().map(|b| (*b, *b)).collect())
    }
}

/// `f(b)` = value of the first rule whose set contains `b`; `None` when no rule applies.
#[derive(Clone, Debug, PartialEq, Eq, Hash, Serialize, Deserialize)]
pub struct MarkFn(pub Vec<(ByteSet, Option<Marker>)>);
impl MarkFn {
    pub fn apply(&self, b: u8) -> Option<Marker> {
        for (s, v) in &self.0 {
            if s.contains(b) {
                return *v;
            }
        }
        None
    }
}

#[derive(Clone, Debug, PartialEq, Eq, Hash, Serialize, Deserialize)]
pub enum Recipe {
    // leaves
    ByteFrom(ByteSet),
    ByteNotFrom(ByteSet),
    AnyByte,
    Word(String),
    FromStr(String),
    FromString(String),
    FromU8(u8),
    FromRefU8(u8),
    Digit,
    Lower,
    Upper,
    Letter,
    Alnum,
    OneBlank,
    BlanksStrict,
    Blanks,
    Epsilon,
    Any,
    Utf8Cps,
    Utf8,
    JsonString,
    // unary
    Neg(Box<Recipe>),
    List(Box<Recipe>),
    SpacedList(Box<Recipe>),
    NonEmptyList(Box<Recipe>),
    SpacedNonEmptyList(Box<Recipe>),
    Optional(Box<Recipe>),
    Repeat(Box<Recipe>, usize),
    SpacedRepeat(Box<Recipe>, usize),
    RepeatAtMost(Box<Recipe>, usize),
    SpacedRepeatAtMost(Box<Recipe>, usize),
    Mark(Box<Recipe>, MarkFn),
    MarkBytes(Box<Recipe>, ByteSet, Marker),
    ReplaceMarkers(Box<Recipe>, Vec<(Marker, Marker)>),
    // binary
    Terminated(Box<Recipe>, Box<Recipe>),
    SpacedTerminated(Box<Recipe>, Box<Recipe>),
    Or(Box<Recipe>, Box<Recipe>),
    And(Box<Recipe>, Box<Recipe>),
    Minus(Box<Recipe>, Box<Recipe>),
    SeparatedNonEmptyList(Box<Recipe>, Box<Recipe>),
    SpacedSeparatedNonEmptyList(Box<Recipe>, Box<Recipe>),
    SeparatedList(Box<Recipe>, Box<Recipe>),
    SpacedSeparatedList(Box<Recipe>, Box<Recipe>),
    SeparatedRepeat(Box<Recipe>, usize, Box<Recipe>),
    SpacedSeparatedRepeat(Box<Recipe>, usize, Box<Recipe>),
    SeparatedRepeatAtMost(Box<Recipe>, usize, Box<Recipe>),
    SpacedSeparatedRepeatAtMost(Box<Recipe>, usize, Box<Recipe>),
    // ternary: (self, opening, closing)
    Delimited(Box<Recipe>, Box<Recipe>, Box<Recipe>),
    SpacedDelimited(Box<Recipe>, Box<Recipe>, Box<Recipe>),
    // n-ary
    Union(Vec<Recipe>),
    Inter(Vec<Recipe>),
    Cat(Vec<Recipe>),
    SpacedCat(Vec<Recipe>),
    SeparatedCat(Vec<Recipe>, Box<Recipe>),
    SpacedSeparatedCat(Vec<Recipe>, Box<Recipe>),
}

impl Recipe {
    pub fn name(&self) -> &'static str {
        use Recipe::*;
        match self {
            ByteFrom(_) => "byte_from",
            ByteNotFrom(_) => "byte_not_from",
            AnyByte => "any_byte",
            Word(_) => "word",
            FromStr(_) => "from_str",
            FromString(_) => "from_string",
            FromU8(_) => "from_u8",
            FromRefU8(_) => "from_ref_u8",
            Digit => "digit",
            Lower => "lowercase_letter",
            Upper => "uppercase_letter",
            Letter => "letter",
            Alnum => "alphanumeric",
            OneBlank => "one_blank",
            BlanksStrict => "blanks_strict",
            Blanks => "blanks",
            Epsilon => "epsilon",
            Any => "any",
            Utf8Cps => "utf8_cps",
            Utf8 => "utf8",
            JsonString => "json_string",
            Neg(_) => "neg",
            List(_) => "list",
            SpacedList(_) => "spaced_list",
            NonEmptyList(_) => "non_empty_list",
            SpacedNonEmptyList(_) => "spaced_non_empty_list",
            Optional(_) => "optional",
            Repeat(..) => "repeat",
            SpacedRepeat(..) => "spaced_repeat",
            RepeatAtMost(..) => "repeat_at_most",
            SpacedRepeatAtMost(..) => "spaced_repeat_at_most",
            Mark(..) => "mark",
            MarkBytes(..) => "mark_bytes",
            ReplaceMarkers(..) => "replace_markers",
            Terminated(..) => "terminated",
            SpacedTerminated(..) => "spaced_terminated",
            Or(..) => "or",
            And(..) => "and",
            Minus(..) => "minus",
            SeparatedNonEmptyList(..) => "separated_non_empty_list",
            SpacedSeparatedNonEmptyList(..) => "spaced_separated_non_empty_list",
            SeparatedList(..) => "separated_list",
            SpacedSeparatedList(..) => "spaced_separated_list",
            SeparatedRepeat(..) => "separated_repeat",
            SpacedSeparatedRepeat(..) => "spaced_separated_repeat",
            SeparatedRepeatAtMost(..) => "separated_repeat_at_most",
            SpacedSeparatedRepeatAtMost(..) => "spaced_separated_repeat_at_most",
            Delimited(..) => "delimited",
            SpacedDelimited(..) => "spaced_delimited",
            Union(_) => "union",
            Inter(_) => "inter",
            Cat(_) => "cat",
            SpacedCat(_) => "spaced_cat",
            SeparatedCat(..) => "separated_cat",
            SpacedSeparatedCat(..) => "spaced_separated_cat",
        }
    }

    pub const ALL_NAMES: [&'static str; 55] = [
        "byte_from", "byte_not_from", "any_byte", "word", "from_str", "from_string", "from_u8",
        "from_ref_u8", "digit", "lowercase_letter", "uppercase_letter", "letter", "alphanumeric",
        "one_blank", "blanks_strict", "blanks", "epsilon", "any", "utf8_cps", "utf8",
        "json_string", "neg", "list", "spaced_list", "non_empty_list", "spaced_non_empty_list",
        "optional", "repeat", "spaced_repeat", "repeat_at_most", "spaced_repeat_at_most", "mark",
        "mark_bytes", "replace_markers", "terminated", "spaced_terminated", "or", "and", "minus",
        "separated_non_empty_list", "spaced_separated_non_empty_list", "separated_list",
        "spaced_separated_list", "separated_repeat", "spaced_separated_repeat",
        "separated_repeat_at_most", "spaced_separated_repeat_at_most", "delimited",
        "spaced_delimited", "union", "inter", "cat", "spaced_cat", "separated_cat",
        "spaced_separated_cat",
    ];

    pub fn children(&self) -> Vec<&Recipe> {
        use Recipe::*;
        match self {
            Neg(a) | List(a) | SpacedList(a) | NonEmptyList(a) | SpacedNonEmptyList(a)
            | Optional(a) | Repeat(a, _) | SpacedRepeat(a, _) | RepeatAtMost(a, _)
            | SpacedRepeatAtMost(a, _) | Mark(a, _) | MarkBytes(a, _, _)
            | ReplaceMarkers(a, _) => vec![a],
            Terminated(a, b) | SpacedTerminated(a, b) | Or(a, b) | And(a, b) | Minus(a, b)
            | SeparatedNonEmptyList(a, b) | SpacedSeparatedNonEmptyList(a, b)
            | SeparatedList(a, b) | SpacedSeparatedList(a, b) | SeparatedRepeat(a, _, b)
            | SpacedSeparatedRepeat(a, _, b) | SeparatedRepeatAtMost(a, _, b)
            | SpacedSeparatedRepeatAtMost(a, _, b) => vec![a, b],
            Delimited(a, b, c) | SpacedDelimited(a, b, c) => vec![a, b, c],
            Union(v) | Inter(v) | Cat(v) | SpacedCat(v) => v.iter().collect(),
            SeparatedCat(v, s) | SpacedSeparatedCat(v, s) => {
                let mut r: Vec<&Recipe> = v.iter().collect();
                r.push(s);
                r
            }
            _ => vec![],
        }
    }

    pub fn children_mut(&mut self) -> Vec<&mut Recipe> {
        use Recipe::*;
        match self {
            Neg(a) | List(a) | SpacedList(a) | NonEmptyList(a) | SpacedNonEmptyList(a)
            | Optional(a) | Repeat(a, _) | SpacedRepeat(a, _) | RepeatAtMost(a, _)
            | SpacedRepeatAtMost(a, _) | Mark(a, _) | MarkBytes(a, _, _)
            | ReplaceMarkers(a, _) => vec![a],
            Terminated(a, b) | SpacedTerminated(a, b) | Or(a, b) | And(a, b) | Minus(a, b)
            | SeparatedNonEmptyList(a, b) | SpacedSeparatedNonEmptyList(a, b)
            | SeparatedList(a, b) | SpacedSeparatedList(a, b) | SeparatedRepeat(a, _, b)
            | SpacedSeparatedRepeat(a, _, b) | SeparatedRepeatAtMost(a, _, b)
            | SpacedSeparatedRepeatAtMost(a, _, b) => vec![a, b],
            Delimited(a, b, c) | SpacedDelimited(a, b, c) => vec![a, b, c],
            Union(v) | Inter(v) | Cat(v) | SpacedCat(v) => v.iter_mut().collect(),
            SeparatedCat(v, s) | SpacedSeparatedCat(v, s) => {
                let mut r: Vec<&mut Recipe> = v.iter_mut().collect();
                r.push(s);
                r
            }
            _ => vec![],
        }
    }

    pub fn node_count(&self) -> usize {
        1 + self.children().iter().map(|c| c.node_count()).sum::<usize>()
    }

    pub fn depth(&self) -> usize {
        1 + self.children().iter().map(|c| c.depth()).max().unwrap_or(0)
    }

    pub fn visit(&self, f: &mut impl FnMut(&Recipe)) {
        f(self);
        for c in self.children() {
            c.visit(f);
        }
    }

    /// combinator skeleton without data, e.g. `minus(list(byte_from),epsilon)`
    pub fn shape(&self) -> String {
        let ch = self.children();
        if ch.is_empty() {
            self.name().to_string()
        } else {
            format!(
                "{}({})",
                self.name(),
                ch.iter().map(|c| c.shape()).collect::<Vec<_>>().join(",")
            )
        }
    }

    /// true if a marker-introducing node occurs (json_string marks its content)
    pub fn introduces_markers(&self) -> bool {
        let mut any = false;
        self.visit(&mut |r| {
            any |= matches!(
                r,
                Recipe::Mark(..) | Recipe::MarkBytes(..) | Recipe::JsonString
            )
        });
        any
    }

    /// The reference expression, combinator by combinator.
    pub fn to_ref(&self) -> RefRe {
        use Recipe::*;
        let bl = RefRe::blanks;
        let sp = RefRe::spaced_sep;
        match self {
            ByteFrom(s) => RefRe::byte_from(s.bytes()),
            ByteNotFrom(s) => RefRe::byte_not_from(s.bytes()),
            AnyByte => RefRe::any_byte(),
            Word(w) | FromStr(w) | FromString(w) => RefRe::word(w.as_bytes()),
            FromU8(b) | FromRefU8(b) => RefRe::byte_from([*b]),
            Digit => RefRe::digit(),
            Lower => RefRe::lowercase_letter(),
            Upper => RefRe::uppercase_letter(),
            Letter => RefRe::letter(),
            Alnum => RefRe::alphanumeric(),
            OneBlank => RefRe::one_blank(),
            BlanksStrict => RefRe::blanks_strict(),
            Blanks => RefRe::blanks(),
            Epsilon => RefRe::epsilon(),
            Any => RefRe::any(),
            Utf8Cps => RefRe::utf8_cps(),
            Utf8 => RefRe::utf8(),
            JsonString => RefRe::json_string(),
            Neg(a) => a.to_ref().neg(),
            List(a) => a.to_ref().list(),
            SpacedList(a) => a.to_ref().separated_list(bl()),
            NonEmptyList(a) => a.to_ref().non_empty_list(),
            SpacedNonEmptyList(a) => a.to_ref().separated_non_empty_list(bl()),
            Optional(a) => a.to_ref().optional(),
            Repeat(a, n) => a.to_ref().repeat(*n),
            SpacedRepeat(a, n) => a.to_ref().separated_repeat(*n, bl()),
            RepeatAtMost(a, n) => a.to_ref().repeat_at_most(*n),
            SpacedRepeatAtMost(a, n) => a.to_ref().separated_repeat_at_most(*n, bl()),
            Mark(a, f) => a.to_ref().mark(&|b| f.apply(b)),
            MarkBytes(a, s, m) => {
                a.to_ref().mark(&|b| if s.contains(b) { Some(*m) } else { None })
            }
            ReplaceMarkers(a, t) => a
                .to_ref()
                .replace_markers(&|m| t.iter().find(|(x, _)| *x == m).map(|(_, y)| *y)),
            Terminated(a, b) => a.to_ref().terminated(b.to_ref()),
            SpacedTerminated(a, b) => RefRe::cat(vec![a.to_ref(), bl(), b.to_ref()]),
            Or(a, b) => a.to_ref().or(b.to_ref()),
            And(a, b) => a.to_ref().and(b.to_ref()),
            Minus(a, b) => a.to_ref().minus(b.to_ref()),
            SeparatedNonEmptyList(a, s) => a.to_ref().separated_non_empty_list(s.to_ref()),
            SpacedSeparatedNonEmptyList(a, s) => {
                a.to_ref().separated_non_empty_list(sp(s.to_ref()))
            }
            SeparatedList(a, s) => a.to_ref().separated_list(s.to_ref()),
            SpacedSeparatedList(a, s) => a.to_ref().separated_list(sp(s.to_ref())),
            SeparatedRepeat(a, n, s) => a.to_ref().separated_repeat(*n, s.to_ref()),
            SpacedSeparatedRepeat(a, n, s) => a.to_ref().separated_repeat(*n, sp(s.to_ref())),
            SeparatedRepeatAtMost(a, n, s) => a.to_ref().separated_repeat_at_most(*n, s.to_ref()),
            SpacedSeparatedRepeatAtMost(a, n, s) => {
                a.to_ref().separated_repeat_at_most(*n, sp(s.to_ref()))
            }
            Delimited(a, o, c) => a.to_ref().delimited(o.to_ref(), c.to_ref()),
            SpacedDelimited(a, o, c) => {
                RefRe::cat(vec![o.to_ref(), bl(), a.to_ref(), bl(), c.to_ref()])
            }
            Union(v) => RefRe::union(v.iter().map(|r| r.to_ref()).collect()),
            Inter(v) => RefRe::inter(v.iter().map(|r| r.to_ref()).collect()),
            Cat(v) => RefRe::cat(v.iter().map(|r| r.to_ref()).collect()),
            SpacedCat(v) => RefRe::separated_cat(v.iter().map(|r| r.to_ref()).collect(), bl()),
            SeparatedCat(v, s) => {
                RefRe::separated_cat(v.iter().map(|r| r.to_ref()).collect(), s.to_ref())
            }
            SpacedSeparatedCat(v, s) => {
                RefRe::separated_cat(v.iter().map(|r| r.to_ref()).collect(), sp(s.to_ref()))
            }
        }
    }
}

// ---------------------------------------------------------------------------------------------
// random recipes
// ---------------------------------------------------------------------------------------------

#[derive(Clone, Copy, Debug)]
pub struct GenFlags {
    /// inside a complement: nothing may introduce markers (library precondition of `neg`)
    pub no_marks: bool,
    /// below a mark / replace_markers node: no complement and no `any()` (the library's `mark`
    /// maps the letters *inside* a complement and finds no letter in `any()`; the meaning of a
    /// mark above them is not documented)
    pub no_neg: bool,
}

pub struct RecipeGen {
    pub pool: Vec<u8>,
    pub max_rep: usize,
}

const POOL_BASE: [u8; 14] = [
    b'a', b'b', b'c', b' ', b'0', b',', 0x00, 0xff, 0x80, b'\n', b'"', b'\\', b'z', b'A',
];

impl RecipeGen {
    pub fn new(rng: &mut impl Rng) -> RecipeGen {
        let n = rng.gen_range(2..=5);
        let mut pool = vec![];
        while pool.len() < n {
            let b = POOL_BASE[rng.gen_range(0..POOL_BASE.len())];
            if !pool.contains(&b) {
                pool.push(b);
            }
        }
        RecipeGen { pool, max_rep: 3 }
    }

    fn byteset(&self, rng: &mut impl Rng) -> ByteSet {
        match rng.gen_range(0..10) {
            0 => {
                let a: u8 = rng.gen();
                let b: u8 = rng.gen();
                ByteSet(vec![(a.min(b), a.max(b))])
            }
            1 => {
                let p = self.pool[rng.gen_range(0..self.pool.len())];
                let a: u8 = rng.gen();
                ByteSet(vec![(p, p), (a, a.saturating_add(rng.gen_range(0..20)))])
            }
            2 if rng.gen_bool(0.2) => ByteSet(vec![]),
            _ => {
                let mut v = vec![];
                for p in &self.pool {
                    if rng.gen_bool(0.5) {
                        v.push((*p, *p));
                    }
                }
                if v.is_empty() {
                    v.push((self.pool[0], self.pool[0]));
                }
                ByteSet(v)
            }
        }
    }

    fn ascii_word(&self, rng: &mut impl Rng) -> String {
        let asc: Vec<u8> = self.pool.iter().copied().filter(|b| *b < 0x80).collect();
        let n = if rng.gen_bool(0.05) { 0 } else { rng.gen_range(1..=3) };
        (0..n)
            .map(|_| {
                if asc.is_empty() {
                    'a'
                } else {
                    asc[rng.gen_range(0..asc.len())] as char
                }
            })
            .collect()
    }

    fn leaf(&self, rng: &mut impl Rng, fl: GenFlags) -> Recipe {
        use Recipe::*;
        loop {
            let r = match rng.gen_range(0..100) {
                0..=29 => ByteFrom(self.byteset(rng)),
                30..=35 => FromU8(self.pool[rng.gen_range(0..self.pool.len())]),
                36..=37 => FromRefU8(self.pool[rng.gen_range(0..self.pool.len())]),
                38..=47 => Word(self.ascii_word(rng)),
                48..=49 => FromStr(self.ascii_word(rng)),
                50..=51 => FromString(self.ascii_word(rng)),
                52..=56 => ByteNotFrom(self.byteset(rng)),
                57..=61 => AnyByte,
                62..=63 => Digit,
                64..=65 => Lower,
                66 => Upper,
                67 => Letter,
                68 => Alnum,
                69..=71 => OneBlank,
                72..=73 => BlanksStrict,
                74..=76 => Blanks,
                77..=79 => Epsilon,
                80..=81 => Any,
                82..=85 => Utf8Cps,
                86..=87 => Utf8,
                88..=91 => JsonString,
                92 => Union(vec![]),
                93 => Inter(vec![]),
                94 => Cat(vec![]),
                _ => ByteFrom(self.byteset(rng)),
            };
            if fl.no_marks && matches!(r, JsonString) {
                continue;
            }
            if fl.no_neg && matches!(r, Any | Inter(_)) {
                continue;
            }
            return r;
        }
    }

    fn markfn(&self, rng: &mut impl Rng) -> MarkFn {
        let n = rng.gen_range(1..=2);
        let mut rules = vec![];
        for _ in 0..n {
            let set = if rng.gen_bool(0.4) {
                ByteSet(vec![(0, 255)])
            } else {
                self.byteset(rng)
            };
            let v = match rng.gen_range(0..10) {
                0 => None,
                1 => Some(0),
                _ => Some(rng.gen_range(1..=3)),
            };
            rules.push((set, v));
        }
        MarkFn(rules)
    }

    pub fn gen(&self, rng: &mut impl Rng, depth: usize, fl: GenFlags) -> Recipe {
        use Recipe::*;
        if depth <= 1 || rng.gen_bool(0.12) {
            return self.leaf(rng, fl);
        }
        let d = depth - 1;
        let sub = |rng: &mut _| Box::new(self.gen(rng, d, fl));
        let nm = GenFlags { no_marks: true, ..fl };
        let nn = GenFlags { no_neg: true, ..fl };
        let n_rep = |rng: &mut dyn rand::RngCore| if rng.gen_bool(0.1) { 0 } else { rng.gen_range(1..=self.max_rep) };
        let vecn = |rng: &mut _, lo: usize, hi: usize| -> Vec<Recipe> {
            // empty argument lists are legal but rare
            let lo = if lo == 0 && rand::Rng::gen_bool(rng, 0.9) { 1 } else { lo };
            let n = rand::Rng::gen_range(rng, lo..=hi);
            (0..n).map(|_| self.gen(rng, d, fl)).collect()
        };
        loop {
            let k = rng.gen_range(0..120);
            let r = match k {
                0..=5 => {
                    if fl.no_neg {
                        continue;
                    }
                    Neg(Box::new(self.gen(rng, d, nm)))
                }
                6..=11 => List(sub(rng)),
                12..=13 => SpacedList(sub(rng)),
                14..=18 => NonEmptyList(sub(rng)),
                19..=20 => SpacedNonEmptyList(sub(rng)),
                21..=25 => Optional(sub(rng)),
                26..=29 => Repeat(sub(rng), n_rep(rng)),
                30..=31 => SpacedRepeat(sub(rng), n_rep(rng)),
                32..=36 => RepeatAtMost(sub(rng), n_rep(rng)),
                37..=38 => SpacedRepeatAtMost(sub(rng), n_rep(rng)),
                39..=45 => {
                    if fl.no_marks {
                        continue;
                    }
                    Mark(Box::new(self.gen(rng, d, nn)), self.markfn(rng))
                }
                46..=50 => {
                    if fl.no_marks {
                        continue;
                    }
                    MarkBytes(
                        Box::new(self.gen(rng, d, nn)),
                        self.byteset(rng),
                        rng.gen_range(0..=3),
                    )
                }
                51..=53 => {
                    if fl.no_marks {
                        continue;
                    }
                    let n = rng.gen_range(1..=2);
                    let t = (0..n)
                        .map(|_| (rng.gen_range(0..=3), rng.gen_range(0..=3)))
                        .collect();
                    ReplaceMarkers(Box::new(self.gen(rng, d, nn)), t)
                }
                54..=59 => Terminated(sub(rng), sub(rng)),
                60..=61 => SpacedTerminated(sub(rng), sub(rng)),
                62..=67 => Or(sub(rng), sub(rng)),
                68..=75 => {
                    if !fl.no_marks && d >= 3 && rng.gen_bool(0.5) {
                        // the library's documented idiom: intersect with a marking transducer
                        let marker =
                            List(Box::new(Mark(Box::new(AnyByte), self.markfn(rng))));
                        And(sub(rng), Box::new(marker))
                    } else {
                        And(sub(rng), sub(rng))
                    }
                }
                76..=82 => {
                    if fl.no_neg {
                        continue;
                    }
                    Minus(sub(rng), Box::new(self.gen(rng, d, nm)))
                }
                83..=85 => SeparatedNonEmptyList(sub(rng), sub(rng)),
                86 => SpacedSeparatedNonEmptyList(sub(rng), sub(rng)),
                87..=89 => SeparatedList(sub(rng), sub(rng)),
                90 => SpacedSeparatedList(sub(rng), sub(rng)),
                91..=92 => SeparatedRepeat(sub(rng), n_rep(rng), sub(rng)),
                93 => SpacedSeparatedRepeat(sub(rng), n_rep(rng), sub(rng)),
                94..=95 => SeparatedRepeatAtMost(sub(rng), n_rep(rng), sub(rng)),
                96 => SpacedSeparatedRepeatAtMost(sub(rng), n_rep(rng), sub(rng)),
                97..=99 => Delimited(sub(rng), sub(rng), sub(rng)),
                100 => SpacedDelimited(sub(rng), sub(rng), sub(rng)),
                101..=105 => Union(vecn(rng, 0, 3)),
                106..=109 => {
                    let v = vecn(rng, if fl.no_neg { 1 } else { 0 }, 3);
                    Inter(v)
                }
                110..=114 => Cat(vecn(rng, 0, 3)),
                115..=116 => SpacedCat(vecn(rng, 0, 3)),
                117..=118 => SeparatedCat(vecn(rng, 0, 3), sub(rng)),
                _ => SpacedSeparatedCat(vecn(rng, 0, 3), sub(rng)),
            };
            return r;
        }
    }
}

// ---------------------------------------------------------------------------------------------
// compiled DFA with outputs (the library's `Automaton`, copied into a dense table)
// ---------------------------------------------------------------------------------------------

#[derive(Clone, Debug)]
pub struct LibDfa {
    pub n: usize,
    pub init: usize,
    pub fin: Vec<bool>,
    /// `delta[s * 256 + b] = (target, marker)`
    pub delta: Vec<Option<(usize, Marker)>>,
    /// can reach a final state
    pub live: Vec<bool>,
    pub n_transitions: usize,
}

impl LibDfa {
    pub fn new(
        nb_states: usize,
        init: usize,
        finals: impl IntoIterator<Item = usize>,
        transitions: impl IntoIterator<Item = ((usize, u8), (usize, Marker))>,
    ) -> Result<LibDfa, String> {
        let mut n = nb_states.max(init + 1);
        let finals: Vec<usize> = finals.into_iter().collect();
        let trans: Vec<_> = transitions.into_iter().collect();
        for f in &finals {
            n = n.max(f + 1);
        }
        for ((s, _), (t, _)) in &trans {
            n = n.max(s + 1).max(t + 1);
        }
        if n > nb_states {
            return Err(format!("state index {} >= nb_states {}", n - 1, nb_states));
        }
        let mut fin = vec![false; n];
        for f in finals {
            fin[f] = true;
        }
        let mut delta = vec![None; n * 256];
        let n_transitions = trans.len();
        for ((s, b), (t, m)) in trans {
            if delta[s * 256 + b as usize].is_some() {
                return Err(format!("duplicate transition ({s},{b})"));
            }
            delta[s * 256 + b as usize] = Some((t, m));
        }
        // liveness
        let mut rev: Vec<Vec<usize>> = vec![vec![]; n];
        for s in 0..n {
            for b in 0..256 {
                if let Some((t, _)) = delta[s * 256 + b] {
                    rev[t].push(s);
                }
            }
        }
        let mut live = fin.clone();
        let mut q: Vec<usize> = (0..n).filter(|s| fin[*s]).collect();
        while let Some(s) = q.pop() {
            for p in &rev[s] {
                if !live[*p] {
                    live[*p] = true;
                    q.push(*p);
                }
            }
        }
        Ok(LibDfa { n, init, fin, delta, live, n_transitions })
    }

    pub fn step(&self, s: usize, b: u8) -> Option<(usize, Marker)> {
        self.delta[s * 256 + b as usize]
    }

    /// `None` if stuck, else (accepted, markers)
    pub fn run(&self, w: &[u8]) -> Option<(bool, Vec<Marker>)> {
        let mut s = self.init;
        let mut out = Vec::with_capacity(w.len());
        for b in w {
            let (t, m) = self.step(s, *b)?;
            out.push(m);
            s = t;
        }
        Some((self.fin[s], out))
    }

    pub fn accepts(&self, w: &[u8]) -> bool {
        matches!(self.run(w), Some((true, _)))
    }

    /// shortest word from `s` to a final state
    pub fn suffix_to_final(&self, s: usize) -> Option<Vec<u8>> {
        let mut prev: HashMap<usize, (usize, u8)> = HashMap::new();
        let mut q = VecDeque::new();
        q.push_back(s);
        let mut seen = vec![false; self.n];
        seen[s] = true;
        while let Some(x) = q.pop_front() {
            if self.fin[x] {
                let mut w = vec![];
                let mut c = x;
                // `s` itself is never inserted in `prev` (it is marked seen first)
                while let Some((p, b)) = prev.get(&c).copied() {
                    w.push(b);
                    c = p;
                }
                w.reverse();
                return Some(w);
            }
            for b in 0..=255u8 {
                if let Some((t, _)) = self.step(x, b) {
                    if !seen[t] {
                        seen[t] = true;
                        prev.insert(t, (x, b));
                        q.push_back(t);
                    }
                }
            }
        }
        None
    }

    pub fn reachable_states(&self) -> usize {
        let mut seen = vec![false; self.n];
        let mut q = vec![self.init];
        seen[self.init] = true;
        let mut c = 0;
        while let Some(s) = q.pop() {
            c += 1;
            for b in 0..256 {
                if let Some((t, _)) = self.delta[s * 256 + b] {
                    if !seen[t] {
                        seen[t] = true;
                        q.push(t);
                    }
                }
            }
        }
        c
    }
}

#[derive(Clone, Debug, PartialEq, Eq)]
pub enum Diff {
    /// `word` is accepted by exactly one side
    Lang { word: Vec<u8>, left_accepts: bool },
    /// `word` is accepted by both sides (if the languages agree) with different markers at `pos`
    Marker { word: Vec<u8>, pos: usize, left: Marker, right: Marker },
}

/// Exhaustive equivalence (language and outputs) of two DFAs with outputs.
pub fn dfa_equiv(a: &LibDfa, b: &LibDfa) -> (Option<Diff>, usize) {
    let mut seen: HashMap<(usize, usize), Option<((usize, usize), u8)>> = HashMap::new();
    let mut q = VecDeque::new();
    seen.insert((a.init, b.init), None);
    q.push_back((a.init, b.init));
    let path = |seen: &HashMap<(usize, usize), Option<((usize, usize), u8)>>, mut s: (usize, usize)| {
        let mut w = vec![];
        while let Some(Some((p, c))) = seen.get(&s) {
            w.push(*c);
            s = *p;
        }
        w.reverse();
        w
    };
    while let Some((x, y)) = q.pop_front() {
        if a.fin[x] != b.fin[y] {
            return (
                Some(Diff::Lang { word: path(&seen, (x, y)), left_accepts: a.fin[x] }),
                seen.len(),
            );
        }
        for c in 0..=255u8 {
            let l = a.step(x, c).filter(|(t, _)| a.live[*t]);
            let r = b.step(y, c).filter(|(t, _)| b.live[*t]);
            match (l, r) {
                (None, None) => {}
                (Some((t, _)), None) => {
                    let mut w = path(&seen, (x, y));
                    w.push(c);
                    w.extend(a.suffix_to_final(t).unwrap_or_default());
                    return (Some(Diff::Lang { word: w, left_accepts: true }), seen.len());
                }
                (None, Some((t, _))) => {
                    let mut w = path(&seen, (x, y));
                    w.push(c);
                    w.extend(b.suffix_to_final(t).unwrap_or_default());
                    return (Some(Diff::Lang { word: w, left_accepts: false }), seen.len());
                }
                (Some((t1, m1)), Some((t2, m2))) => {
                    if m1 != m2 {
                        let mut w = path(&seen, (x, y));
                        let pos = w.len();
                        w.push(c);
                        w.extend(a.suffix_to_final(t1).unwrap_or_default());
                        return (
                            Some(Diff::Marker { word: w, pos, left: m1, right: m2 }),
                            seen.len(),
                        );
                    }
                    if !seen.contains_key(&(t1, t2)) {
                        seen.insert((t1, t2), Some(((x, y), c)));
                        q.push_back((t1, t2));
                    }
                }
            }
        }
    }
    (None, seen.len())
}

// ---------------------------------------------------------------------------------------------
// marked derivative automaton over byte classes
// ---------------------------------------------------------------------------------------------

pub struct RefAut {
    /// class -> bytes (sorted); representative = first
    pub classes: Vec<Vec<u8>>,
    pub class_of: Vec<usize>,
    /// markers to try for each class (always contains 0)
    pub class_markers: Vec<Vec<Marker>>,
    pub states: Vec<RefRe>,
    pub nullable: Vec<bool>,
    /// `[state][class]` -> (marker, next), non-empty derivatives only
    pub trans: Vec<Vec<Vec<(Marker, usize)>>>,
    pub live: Vec<bool>,
    /// BFS parent (state, byte) of each state
    pub parent: Vec<Option<(usize, u8)>>,
}

#[derive(Clone, Debug)]
pub struct NonSeqDet {
    pub prefix: Vec<u8>,
    pub byte: u8,
    pub m1: Marker,
    pub m2: Marker,
}

pub fn byte_classes(r: &RefRe) -> (Vec<Vec<u8>>, Vec<usize>, Vec<Vec<Marker>>) {
    let mut sets: BTreeSet<&Vec<Letter>> = BTreeSet::new();
    r.visit_sets(&mut |l| {
        sets.insert(&**l);
    });
    let mut sig: Vec<Vec<(usize, Marker)>> = vec![vec![]; 256];
    for (i, s) in sets.iter().enumerate() {
        for (b, m) in s.iter() {
            sig[*b as usize].push((i, *m));
        }
    }
    let mut by_sig: BTreeMap<&Vec<(usize, Marker)>, usize> = BTreeMap::new();
    let mut classes: Vec<Vec<u8>> = vec![];
    let mut class_of = vec![0usize; 256];
    let mut class_markers: Vec<Vec<Marker>> = vec![];
    for b in 0..256usize {
        let id = *by_sig.entry(&sig[b]).or_insert_with(|| {
            classes.push(vec![]);
            let mut ms: BTreeSet<Marker> = sig[b].iter().map(|(_, m)| *m).collect();
            ms.insert(0);
            class_markers.push(ms.into_iter().collect());
            classes.len() - 1
        });
        classes[id].push(b as u8);
        class_of[b] = id;
    }
    (classes, class_of, class_markers)
}

impl RefAut {
    /// `None` when more than `bound` states are needed.
    pub fn explore(r: &RefRe, bound: usize) -> Option<RefAut> {
        let (classes, class_of, class_markers) = byte_classes(r);
        let mut index: HashMap<RefRe, usize> = HashMap::new();
        let mut states = vec![r.clone()];
        let mut parent = vec![None];
        index.insert(r.clone(), 0);
        let mut trans: Vec<Vec<Vec<(Marker, usize)>>> = vec![];
        let mut i = 0;
        while i < states.len() {
            let s = states[i].clone();
            let mut row = Vec::with_capacity(classes.len());
            for (c, bytes) in classes.iter().enumerate() {
                let b = bytes[0];
                let mut outs = vec![];
                for m in &class_markers[c] {
                    let d = s.deriv(b, *m);
                    if d == Empty {
                        continue;
                    }
                    let id = match index.get(&d) {
                        Some(id) => *id,
                        None => {
                            if states.len() >= bound {
                                return None;
                            }
                            states.push(d.clone());
                            parent.push(Some((i, b)));
                            index.insert(d, states.len() - 1);
                            states.len() - 1
                        }
                    };
                    outs.push((*m, id));
                }
                row.push(outs);
            }
            trans.push(row);
            i += 1;
        }
        let nullable: Vec<bool> = states.iter().map(|s| s.nullable()).collect();
        let n = states.len();
        let mut rev: Vec<Vec<usize>> = vec![vec![]; n];
        for (s, row) in trans.iter().enumerate() {
            for outs in row {
                for (_, t) in outs {
                    rev[*t].push(s);
                }
            }
        }
        let mut live = nullable.clone();
        let mut q: Vec<usize> = (0..n).filter(|s| nullable[*s]).collect();
        while let Some(s) = q.pop() {
            for p in &rev[s] {
                if !live[*p] {
                    live[*p] = true;
                    q.push(*p);
                }
            }
        }
        Some(RefAut { classes, class_of, class_markers, states, nullable, trans, live, parent })
    }

    pub fn path_to(&self, mut s: usize) -> Vec<u8> {
        let mut w = vec![];
        while let Some((p, b)) = self.parent[s] {
            w.push(b);
            s = p;
        }
        w.reverse();
        w
    }

    pub fn live_succ(&self, s: usize, class: usize) -> Vec<(Marker, usize)> {
        self.trans[s][class].iter().copied().filter(|(_, t)| self.live[*t]).collect()
    }

    /// Sequential output-determinism: in every live state every byte has at most one marker
    /// leading to a live state (what a deterministic transducer can realise).
    pub fn seq_det(&self) -> Result<(), NonSeqDet> {
        for s in 0..self.states.len() {
            if !self.live[s] {
                continue;
            }
            for c in 0..self.classes.len() {
                let l = self.live_succ(s, c);
                if l.len() > 1 {
                    return Err(NonSeqDet {
                        prefix: self.path_to(s),
                        byte: self.classes[c][0],
                        m1: l[0].0,
                        m2: l[1].0,
                    });
                }
            }
        }
        Ok(())
    }

    /// Some accepted byte word with two different markings? `None` = search budget exceeded.
    pub fn ambiguous_word(&self, budget: usize) -> Option<Option<Vec<u8>>> {
        // pairs of runs on the same bytes; `div` = markings already differ
        let mut seen: HashMap<(usize, usize, bool), Option<((usize, usize, bool), u8)>> =
            HashMap::new();
        let mut q = VecDeque::new();
        seen.insert((0, 0, false), None);
        q.push_back((0usize, 0usize, false));
        while let Some((x, y, div)) = q.pop_front() {
            if div && self.nullable[x] && self.nullable[y] {
                let mut w = vec![];
                let mut s = (x, y, div);
                while let Some(Some((p, b))) = seen.get(&s) {
                    w.push(*b);
                    s = *p;
                }
                w.reverse();
                return Some(Some(w));
            }
            for c in 0..self.classes.len() {
                let lx = self.live_succ(x, c);
                let ly = self.live_succ(y, c);
                for (m1, t1) in &lx {
                    for (m2, t2) in &ly {
                        let d2 = div || m1 != m2;
                        let key = if !d2 && t1 > t2 { (*t2, *t1, d2) } else { (*t1, *t2, d2) };
                        if !seen.contains_key(&key) {
                            if seen.len() >= budget {
                                return None;
                            }
                            seen.insert(key, Some(((x, y, div), self.classes[c][0])));
                            q.push_back(key);
                        }
                    }
                }
            }
        }
        Some(None)
    }

    pub fn suffix_to_nullable(&self, s: usize) -> Option<Vec<u8>> {
        let mut prev: HashMap<usize, (usize, u8)> = HashMap::new();
        let mut q = VecDeque::new();
        q.push_back(s);
        let mut seen = vec![false; self.states.len()];
        seen[s] = true;
        while let Some(x) = q.pop_front() {
            if self.nullable[x] {
                let mut w = vec![];
                let mut c = x;
                while c != s {
                    let (p, b) = prev[&c];
                    w.push(b);
                    c = p;
                }
                w.reverse();
                return Some(w);
            }
            for (c, outs) in self.trans[x].iter().enumerate() {
                for (_, t) in outs {
                    if self.live[*t] && !seen[*t] {
                        seen[*t] = true;
                        prev.insert(*t, (x, self.classes[c][0]));
                        q.push_back(*t);
                    }
                }
            }
        }
        None
    }

    /// Exhaustive comparison with a compiled DFA: language and outputs, all 256 bytes in every
    /// product state. Requires `self.seq_det()`. Returns the first difference in BFS order and the
    /// number of product states visited. `left` = reference, `right` = compiled automaton.
    pub fn product_check(&self, lib: &LibDfa) -> (Option<Diff>, usize) {
        let mut seen: HashMap<(usize, usize), Option<((usize, usize), u8)>> = HashMap::new();
        let mut q = VecDeque::new();
        let path = |seen: &HashMap<(usize, usize), Option<((usize, usize), u8)>>,
                    mut s: (usize, usize)| {
            let mut w = vec![];
            while let Some(Some((p, c))) = seen.get(&s) {
                w.push(*c);
                s = *p;
            }
            w.reverse();
            w
        };
        let ref_live0 = self.live[0];
        let lib_live0 = lib.live[lib.init];
        if !ref_live0 && !lib_live0 {
            return (None, 0);
        }
        if ref_live0 != lib_live0 {
            let w = if ref_live0 {
                self.suffix_to_nullable(0).unwrap_or_default()
            } else {
                lib.suffix_to_final(lib.init).unwrap_or_default()
            };
            return (Some(Diff::Lang { word: w, left_accepts: ref_live0 }), 1);
        }
        seen.insert((0, lib.init), None);
        q.push_back((0usize, lib.init));
        while let Some((r, l)) = q.pop_front() {
            if self.nullable[r] != lib.fin[l] {
                return (
                    Some(Diff::Lang { word: path(&seen, (r, l)), left_accepts: self.nullable[r] }),
                    seen.len(),
                );
            }
            for (c, bytes) in self.classes.iter().enumerate() {
                let rs = self.live_succ(r, c);
                let rsucc = rs.first().copied();
                for b in bytes {
                    let ls = lib.step(l, *b).filter(|(t, _)| lib.live[*t]);
                    match (rsucc, ls) {
                        (None, None) => {}
                        (Some((_, t)), None) => {
                            let mut w = path(&seen, (r, l));
                            w.push(*b);
                            w.extend(self.suffix_to_nullable(t).unwrap_or_default());
                            return (Some(Diff::Lang { word: w, left_accepts: true }), seen.len());
                        }
                        (None, Some((t, _))) => {
                            let mut w = path(&seen, (r, l));
                            w.push(*b);
                            w.extend(lib.suffix_to_final(t).unwrap_or_default());
                            return (Some(Diff::Lang { word: w, left_accepts: false }), seen.len());
                        }
                        (Some((m1, t1)), Some((t2, m2))) => {
                            if m1 != m2 {
                                let mut w = path(&seen, (r, l));
                                let pos = w.len();
                                w.push(*b);
                                w.extend(self.suffix_to_nullable(t1).unwrap_or_default());
                                return (
                                    Some(Diff::Marker { word: w, pos, left: m1, right: m2 }),
                                    seen.len(),
                                );
                            }
                            if !seen.contains_key(&(t1, t2)) {
                                seen.insert((t1, t2), Some(((r, l), *b)));
                                q.push_back((t1, t2));
                            }
                        }
                    }
                }
            }
        }
        (None, seen.len())
    }
}

// ---------------------------------------------------------------------------------------------
// word-level semantics
// ---------------------------------------------------------------------------------------------

fn markers_for(r: &RefRe) -> Vec<Vec<Marker>> {
    let mut per: Vec<BTreeSet<Marker>> = vec![BTreeSet::from([0]); 256];
    r.visit_sets(&mut |l| {
        for (b, m) in l.iter() {
            per[*b as usize].insert(*m);
        }
    });
    per.into_iter().map(|s| s.into_iter().collect()).collect()
}

/// All marker sequences with which `w` is in the language (derivative DP). `Err` if more than
/// `cap` partial markings are alive at some point.
pub fn match_markers(r: &RefRe, w: &[u8], cap: usize) -> Result<BTreeSet<Vec<Marker>>, ()> {
    let per = markers_for(r);
    let mut cur: BTreeSet<(RefRe, Vec<Marker>)> = BTreeSet::new();
    cur.insert((r.clone(), vec![]));
    for b in w {
        let mut next = BTreeSet::new();
        for (s, ms) in &cur {
            for m in &per[*b as usize] {
                let d = s.deriv(*b, *m);
                if d != Empty {
                    let mut v = ms.clone();
                    v.push(*m);
                    next.insert((d, v));
                }
            }
        }
        if next.len() > cap {
            return Err(());
        }
        cur = next;
        if cur.is_empty() {
            break;
        }
    }
    Ok(cur.into_iter().filter(|(s, _)| s.nullable()).map(|(_, v)| v).collect())
}

/// Span-based denotational matcher (no derivatives, no smart constructors involved beyond the
/// tree itself): the set of markings of `w` in the language of `r`.
pub fn naive_match(r: &RefRe, w: &[u8]) -> BTreeSet<Vec<Marker>> {
    let mut memo: HashMap<(*const RefRe, usize, usize), BTreeSet<Vec<Marker>>> = HashMap::new();
    naive(r, w, 0, w.len(), &mut memo)
}

type Memo = HashMap<(*const RefRe, usize, usize), BTreeSet<Vec<Marker>>>;

fn concat_sets(a: &BTreeSet<Vec<Marker>>, b: &BTreeSet<Vec<Marker>>) -> BTreeSet<Vec<Marker>> {
    let mut out = BTreeSet::new();
    for x in a {
        for y in b {
            let mut v = x.clone();
            v.extend(y);
            out.insert(v);
        }
    }
    out
}

fn naive(r: &RefRe, w: &[u8], i: usize, j: usize, memo: &mut Memo) -> BTreeSet<Vec<Marker>> {
    let key = (r as *const RefRe, i, j);
    if let Some(v) = memo.get(&key) {
        return v.clone();
    }
    let res: BTreeSet<Vec<Marker>> = match r {
        Empty => BTreeSet::new(),
        Eps => {
            if i == j {
                BTreeSet::from([vec![]])
            } else {
                BTreeSet::new()
            }
        }
        Set(l) => {
            if j == i + 1 {
                l.iter().filter(|(b, _)| *b == w[i]).map(|(_, m)| vec![*m]).collect()
            } else {
                BTreeSet::new()
            }
        }
        Cat(v) => naive_cat(&v[..], w, i, j, memo),
        Alt(v) => {
            let mut out = BTreeSet::new();
            for x in v.iter() {
                out.extend(naive(x, w, i, j, memo));
            }
            out
        }
        And(v) => {
            let mut acc: BTreeSet<Vec<Marker>> = BTreeSet::from([vec![0; j - i]]);
            for x in v.iter() {
                let s = naive(x, w, i, j, memo);
                let mut next = BTreeSet::new();
                for a in &acc {
                    'b: for b in &s {
                        let mut u = Vec::with_capacity(a.len());
                        for (p, q) in a.iter().zip(b.iter()) {
                            if p == q || *p == 0 || *q == 0 {
                                u.push(*p.max(q));
                            } else {
                                continue 'b;
                            }
                        }
                        next.insert(u);
                    }
                }
                acc = next;
            }
            acc
        }
        Not(x) => {
            if naive(x, w, i, j, memo).is_empty() {
                BTreeSet::from([vec![0; j - i]])
            } else {
                BTreeSet::new()
            }
        }
        Star(x) => {
            if i == j {
                BTreeSet::from([vec![]])
            } else {
                let mut out = BTreeSet::new();
                for k in i + 1..=j {
                    let head = naive(x, w, i, k, memo);
                    if head.is_empty() {
                        continue;
                    }
                    let tail = naive(r, w, k, j, memo);
                    out.extend(concat_sets(&head, &tail));
                }
                out
            }
        }
        Rep(x, lo, hi) => {
            // exactly n copies for n in lo..=hi
            let mut out = BTreeSet::new();
            // layer[n][k] = markings of w[i..k] as exactly n copies
            let mut layer: Vec<BTreeSet<Vec<Marker>>> = vec![BTreeSet::new(); j - i + 1];
            layer[0].insert(vec![]);
            if *lo == 0 {
                out.extend(layer[j - i].iter().cloned());
            }
            for n in 1..=*hi {
                let mut next: Vec<BTreeSet<Vec<Marker>>> = vec![BTreeSet::new(); j - i + 1];
                for a in 0..=(j - i) {
                    if layer[a].is_empty() {
                        continue;
                    }
                    for b in a..=(j - i) {
                        let piece = naive(x, w, i + a, i + b, memo);
                        if piece.is_empty() {
                            continue;
                        }
                        let c = concat_sets(&layer[a], &piece);
                        next[b].extend(c);
                    }
                }
                layer = next;
                if n >= *lo {
                    out.extend(layer[j - i].iter().cloned());
                }
            }
            out
        }
    };
    memo.insert(key, res.clone());
    res
}

fn naive_cat(v: &[RefRe], w: &[u8], i: usize, j: usize, memo: &mut Memo) -> BTreeSet<Vec<Marker>> {
    if v.is_empty() {
        return if i == j { BTreeSet::from([vec![]]) } else { BTreeSet::new() };
    }
    if v.len() == 1 {
        return naive(&v[0], w, i, j, memo);
    }
    let mut out = BTreeSet::new();
    for k in i..=j {
        let head = naive(&v[0], w, i, k, memo);
        if head.is_empty() {
            continue;
        }
        let tail = naive_cat(&v[1..], w, k, j, memo);
        out.extend(concat_sets(&head, &tail));
    }
    out
}

// ---------------------------------------------------------------------------------------------
// self test (called by the check at start-up; a failure is a harness bug, never a violation)
// ---------------------------------------------------------------------------------------------

pub fn self_test() -> Result<(), String> {
    let a = || RefRe::byte_from([b'a']);
    let b = || RefRe::byte_from([b'b']);
    let chk = |r: &RefRe, w: &[u8], exp: &[&[Marker]]| -> Result<(), String> {
        let e: BTreeSet<Vec<Marker>> = exp.iter().map(|x| x.to_vec()).collect();
        let d = match_markers(r, w, 1000).map_err(|_| "overflow".to_string())?;
        let n = naive_match(r, w);
        if d != e || n != e {
            return Err(format!("self-test: {r:?} on {w:?}: deriv {d:?} naive {n:?} expected {e:?}"));
        }
        Ok(())
    };
    // (a|b)* minus a*  : words with a b
    let r = RefRe::mk_star(a().or(b())).minus(RefRe::mk_star(a()));
    chk(&r, b"aab", &[&[0, 0, 0]])?;
    chk(&r, b"aaa", &[])?;
    chk(&r, b"", &[])?;
    // markers and intersection unification
    let m = RefRe::any_byte().mark(&|c| if c == b'a' { Some(2) } else { None }).list();
    let r2 = RefRe::word(b"ab").non_empty_list().and(m);
    chk(&r2, b"abab", &[&[2, 0, 2, 0]])?;
    chk(&r2, b"aba", &[])?;
    let r3 = a().mark(&|_| Some(1)).and(a().mark(&|_| Some(2)));
    chk(&r3, b"a", &[])?;
    // bounded repetition
    let r4 = a().or(RefRe::word(b"ab")).repeat_at_most(2);
    chk(&r4, b"aab", &[&[0, 0, 0]])?;
    chk(&r4, b"abab", &[&[0, 0, 0, 0]])?;
    chk(&r4, b"aaa", &[])?;
    chk(&r4, b"", &[&[]])?;
    let r5 = a().separated_repeat(3, b());
    chk(&r5, b"ababa", &[&[0; 5]])?;
    chk(&r5, b"aba", &[])?;
    // complement of epsilon / of the empty language
    chk(&RefRe::epsilon().neg(), b"", &[])?;
    chk(&RefRe::epsilon().neg(), b"x", &[&[0]])?;
    chk(&RefRe::union(vec![]).neg(), b"xy", &[&[0, 0]])?;
    // ambiguity is visible
    let r6 = a().mark(&|_| Some(1)).or(a());
    chk(&r6, b"a", &[&[0], &[1]])?;
    // json string
    let js = RefRe::json_string();
    chk(&js, b"\"a\\n\"", &[&[0, 1, 1, 1, 0]])?;
    chk(&js, b"\"a\\x\"", &[])?;
    chk(&js, &[b'"', 0xC3, 0xA9, b'"'], &[&[0, 1, 1, 0]])?;
    chk(&js, &[b'"', 0xC3, b'"'], &[])?;
    // automaton level
    let aut = RefAut::explore(&r2, 1000).ok_or("explore")?;
    aut.seq_det().map_err(|e| format!("seq_det {e:?}"))?;
    let aut6 = RefAut::explore(&r6, 1000).ok_or("explore")?;
    if aut6.seq_det().is_ok() {
        return Err("self-test: ambiguity not detected".into());
    }
    if aut6.ambiguous_word(1000) != Some(Some(b"a".to_vec())) {
        return Err("self-test: ambiguous word".into());
    }
    Ok(())
}
