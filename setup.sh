#!/bin/bash
# MANIFEST.setup_cmd: build every harness binary offline from files on disk.
set -eu
export CARGO_NET_OFFLINE=true
export CARGO_TARGET_DIR="${MZV_TARGET_DIR:-/verif/target}"
cd /verif/harness
cp /repo/Cargo.lock Cargo.lock
cargo build --release --offline --features hooks --bins 2>&1 | tail -3
# reference-model self tests (a reference bug must show up here, not as a violation)
if [ -x "$CARGO_TARGET_DIR/release/refs_selftest" ]; then "$CARGO_TARGET_DIR/release/refs_selftest"; fi
