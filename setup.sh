#!/bin/bash
# MANIFEST.setup_cmd: build the harness binaries of all registered checks, offline, from files on disk.
set -eu
export CARGO_NET_OFFLINE=true
export CARGO_TARGET_DIR="${MZV_TARGET_DIR:-/verif/target}"
cd /verif/harness
cp /repo/Cargo.lock Cargo.lock
BINS=$(python3 -c "
import json
m=json.load(open('/verif/MANIFEST.json'))
print(' '.join('--bin '+c['property_id'].lower() for c in m['checks']))
")
if [ -n "$BINS" ]; then
  cargo build --release --offline --features hooks $BINS 2>&1 | tail -3
fi
echo "setup done"
