#!/usr/bin/env python3
"""Usage: apply_demo.py <rust file> <demo snippet>
Inserts the snippet just before the last closing brace of the file (i.e. at the
end of the trailing `mod tests { ... }`)."""
import sys
path, snippet = sys.argv[1], sys.argv[2]
src = open(path).read().rstrip()
assert src.endswith('}')
src = src[:-1].rstrip('\n') + '\n\n' + open(snippet).read().rstrip('\n') + '\n}\n'
open(path, 'w').write(src)
