#!/bin/bash
# tools/confirm_seeded.sh <seed-id> <out-dir-with-patch.diff-and-demo.rs> <crate-dir> <package> [extra test filter]
# Confirms a seeded change in ONE shared scratch worktree (/tmp/confirm-wt): demo passes on the pristine tree,
# fails with the patch; the changed package's own tests still pass with the patch. Copies the artefacts to
# /verif/seeded/<seed-id>/ and writes confirm.log there.
set -u
ID="$1"; OUT="$2"; CRATE="$3"; PKG="$4"
WT=/tmp/confirm-wt
export CARGO_NET_OFFLINE=true CARGO_TARGET_DIR=$WT/target
[ -d $WT ] || git -C /repo worktree add -q $WT HEAD
git -C $WT checkout -q -- . ; git -C $WT clean -fdq -e target
DEST=/verif/seeded/$ID; mkdir -p $DEST
cp $OUT/patch.diff $DEST/patch.diff; cp $OUT/demo.rs $DEST/demo.rs; cp $OUT/notes.md $DEST/notes.md 2>/dev/null
LOG=$DEST/confirm.log; : > $LOG
mkdir -p $WT/$CRATE/tests; cp $OUT/demo.rs $WT/$CRATE/tests/seeded_demo.rs
echo "## demo on pristine tree (expect PASS)" >> $LOG
( cd $WT && timeout 3600 cargo test --offline -p $PKG ${FEAT:-} --test seeded_demo 2>&1 | grep -E "^test |test result|error(\[|:)|panicked" | head -20 ) >> $LOG
PRISTINE=$(grep -c "test result: ok" $LOG)
git -C $WT apply $OUT/patch.diff || { echo "PATCH DOES NOT APPLY" >> $LOG; exit 2; }
echo "## demo with patch (expect FAIL)" >> $LOG
( cd $WT && timeout 3600 cargo test --offline -p $PKG ${FEAT:-} --test seeded_demo 2>&1 | grep -E "^test |test result|error(\[|:)|panicked" | head -20 ) >> $LOG
PATCHED_FAIL=$(sed -n '/## demo with patch/,$p' $LOG | grep -c "test result: FAILED")
rm -f $WT/$CRATE/tests/seeded_demo.rs
echo "## existing tests of $PKG with patch (expect all pass)" >> $LOG
( cd $WT && timeout 7200 cargo test --offline -p $PKG ${FEAT:-} 2>&1 | grep -E "test result|FAILED|failed" | head -20 ) >> $LOG
SUITE_FAIL=$(sed -n '/## existing tests/,$p' $LOG | grep -c "FAILED")
echo "SUMMARY id=$ID pristine_pass=$PRISTINE patched_fail=$PATCHED_FAIL suite_failures=$SUITE_FAIL" | tee -a $LOG
git -C $WT checkout -q -- . ; git -C $WT clean -fdq -e target
