#!/bin/bash
# tools/confirm_seeded_append.sh <seed-id> <out-dir> <source-file-relative-to-repo> <package> <test-filter>
# Like confirm_seeded.sh, for demonstrations that are unit tests to be APPENDED to a source file
# (INSIDE_TESTS=1: inserted before the last closing brace, i.e. inside the trailing `mod tests`).
set -u
ID="$1"; OUT="$2"; SRC="$3"; PKG="$4"; FILTER="$5"
WT=/tmp/confirm-wt
export CARGO_NET_OFFLINE=true CARGO_TARGET_DIR=$WT/target
[ -d $WT ] || git -C /repo worktree add -q $WT HEAD
git -C $WT checkout -q -- . ; git -C $WT clean -fdq -e target
DEST=/verif/seeded/$ID; mkdir -p $DEST
cp $OUT/patch.diff $OUT/demo.rs $DEST/; cp $OUT/notes.md $DEST/ 2>/dev/null
LOG=$DEST/confirm.log; : > $LOG
if [ -n "${INSIDE_TESTS:-}" ]; then python3 /verif/tools/apply_demo.py $WT/$SRC $OUT/demo.rs; else cat $OUT/demo.rs >> $WT/$SRC; fi
echo "## demo on pristine tree (expect PASS)" >> $LOG
( cd $WT && timeout 3600 cargo test --offline -p $PKG ${FEAT:-} --lib $FILTER 2>&1 | grep -E "^test |test result|error(\[|:)|panicked" | head -20 ) >> $LOG
PRISTINE=$(grep -c "test result: ok" $LOG)
git -C $WT checkout -q -- . ; git -C $WT apply $OUT/patch.diff || { echo "PATCH DOES NOT APPLY" >> $LOG; exit 2; }
if [ -n "${INSIDE_TESTS:-}" ]; then python3 /verif/tools/apply_demo.py $WT/$SRC $OUT/demo.rs; else cat $OUT/demo.rs >> $WT/$SRC; fi
echo "## demo with patch (expect FAIL)" >> $LOG
( cd $WT && timeout 3600 cargo test --offline -p $PKG ${FEAT:-} --lib $FILTER 2>&1 | grep -E "^test |test result|error(\[|:)|panicked" | head -20 ) >> $LOG
PATCHED_FAIL=$(sed -n '/## demo with patch/,$p' $LOG | grep -c "test result: FAILED")
git -C $WT checkout -q -- . ; git -C $WT apply $OUT/patch.diff
echo "## existing tests of $PKG with patch (expect all pass)" >> $LOG
( cd $WT && timeout 7200 cargo test --offline -p $PKG ${FEAT:-} --lib 2>&1 | grep -E "test result|FAILED|failed" | head -20 ) >> $LOG
SUITE_FAIL=$(sed -n '/## existing tests/,$p' $LOG | grep -c "FAILED")
echo "SUMMARY id=$ID pristine_pass=$PRISTINE patched_fail=$PATCHED_FAIL suite_failures=$SUITE_FAIL" | tee -a $LOG
git -C $WT checkout -q -- . ; git -C $WT clean -fdq -e target
