#!/usr/bin/env python3
"""Generates /verif/MANIFEST.json from tools/checks.json (one entry per claimed property) and
validates it against the schema when jsonschema is importable."""
import json, os, sys
ROOT = "/verif"
props = [json.loads(l) for l in open(f"{ROOT}/properties.jsonl")]
ids = [p["id"] for p in props]
spec = json.load(open(f"{ROOT}/tools/checks.json"))
checks = []
for c in spec["checks"]:
    pid = c["property_id"]
    checks.append({
        "property_id": pid,
        "quick_cmd": f"./run {pid} quick",
        "thorough_cmd": f"./run {pid} thorough",
        "evidence_file": f"/verif/evidence/{pid}.json",
        "replay_cmd_template": f"./run {pid} quick --replay {{path}}",
        "engine": c.get("engine", "mzv"),
        "level_claimed": {"category": "exploration", "text": c["level_text"], "design_ref": c.get("design_ref", f"DESIGN.md §5 {pid}")},
        "level_note": c["level_note"],
        "technique": c["technique"],
    })
claimed = {c["property_id"] for c in checks}
na = []
for pid in ids:
    if pid not in claimed:
        na.append({"property_id": pid, "reason": spec.get("not_applicable", {}).get(pid, "no check registered yet: the monitor for this property is still being built (see DESIGN.md §5)")})
manifest = {
    "version": 1,
    "setup_cmd": "./setup.sh",
    "hooks": {
        "guard": "cargo feature `verif-hooks` (midnight-proofs, midnight-circuits, midnight-aggregator)",
        "enable": "the harness crate /verif/harness depends on /repo's crates by path with feature `hooks` = [midnight-proofs/verif-hooks, midnight-circuits/verif-hooks, midnight-aggregator/verif-hooks]; ./run builds with --features hooks",
        "baseline_off_cmd": "cd /repo && cargo nextest run --workspace --no-fail-fast --test-threads 8 --offline || cargo test --workspace --no-fail-fast --offline",
        "source_commits": spec["hook_commits"],
        "add_only": True,
    },
    "engines": spec["engines"],
    "checks": checks,
    "notes": spec["notes"],
    "not_applicable": na,
}
json.dump(manifest, open(f"{ROOT}/MANIFEST.json", "w"), indent=1)
try:
    import jsonschema
    jsonschema.validate(manifest, json.load(open("/root/.vp/MANIFEST.schema.json")))
    print("MANIFEST.json valid;", len(checks), "checks,", len(na), "not claimed")
except ImportError:
    print("jsonschema not importable; MANIFEST.json written unvalidated")
