#!/bin/bash
# tools/mutant_run.sh <repo-copy-dir> <Cxx> <tier> [extra args]
# Runs a check against a *copy* of the repository (a scratch git worktree) instead of /repo:
# the harness sources are used as they are, only the path dependencies are redirected.
# Scratch (manifest copy + target dir) lives next to the worktree: <repo-copy-dir>.mzv/
set -u
COPY="${1:?repo copy}"; PROP="${2:?property}"; TIER="${3:-quick}"; shift 3
BIN=$(echo "$PROP" | tr 'A-Z' 'a-z')
S="${COPY%/}.mzv"
mkdir -p "$S/harness"
sed "s#/repo/#${COPY%/}/#g" /verif/harness/Cargo.toml > "$S/harness/Cargo.toml"
rm -f "$S/harness/src"; ln -s /verif/harness/src "$S/harness/src"
cp "${COPY%/}/Cargo.lock" "$S/harness/Cargo.lock"
export CARGO_NET_OFFLINE=true CARGO_TARGET_DIR="$S/target"
( cd "$S/harness" && cargo build --release --offline --features hooks --bin "$BIN" > "$S/build.log" 2>&1 ) || { echo "BUILD FAILED"; tail -20 "$S/build.log"; exit 2; }
cd /verif && "$S/target/release/$BIN" --tier "$TIER" --seed "${VERIF_SEED:-1}" --evidence "$S/evidence-$PROP.json" "$@"
