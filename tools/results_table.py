#!/usr/bin/env python3
"""Prints the markdown table of DESIGN.md §10.4 from /verif/evidence/*.json (what the last run of
each check observed) and the sanitizer stages merged into them."""
import json, glob, os
print("| property | tier | evaluations | distinct non-trivial | known findings seen | inconclusive | wall (s) | sanitizer stages |")
print("|---|---|---|---|---|---|---|---|")
for f in sorted(glob.glob("/verif/evidence/C*.json")):
    e = json.load(open(f))
    c = e.get("coverage", {})
    st = c.get("sanitizer_stages") or []
    s = "; ".join(f"{x.get('tool')}: {x.get('status')}" + (f" ({x.get('wall_s')} s)" if x.get('wall_s') else "") for x in st) or "—"
    kf = c.get("known_findings_seen")
    kf = len(kf) if isinstance(kf, list) else (kf or 0)
    print(f"| {e.get('property_id')} | {e.get('tier')} | {c.get('evaluations')} | {c.get('distinct_nontrivial')} | {kf} | {c.get('inconclusive_cases')} | {round(e.get('wall_s') or 0)} | {s} |")
