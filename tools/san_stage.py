#!/usr/bin/env python3
"""Sanitizer stages (DESIGN.md §6 / E9) for the thorough tier.

usage: san_stage.py <Cxx> <seed> <evidence.json>

Runs, for the property, the configured tools over a small dedicated workload of the same check
binary (`--stage san` or reduced-size arguments), one sanitizer per build:
  memcheck : valgrind on the normal release binary (no extra build)
  asan     : nightly -Zsanitizer=address build in target-asan
  tsan     : nightly -Zsanitizer=thread -Zbuild-std build in target-tsan
Reports are de-duplicated by the first in-repository frame. Results are merged into the evidence
file under coverage.sanitizer_stages. Exit 0 = no report (or only known findings), 1 = unlisted
report (prints a VIOLATION line), tool failures are recorded as inconclusive and do not fail.
"""
import json, os, re, subprocess, sys, time

ROOT = "/verif"
prop, seed, evidence = sys.argv[1], sys.argv[2], sys.argv[3]
binname = prop.lower()
TARGET = os.environ.get("MZV_TARGET_DIR", f"{ROOT}/target")

# property -> list of (tool, extra args of the check binary for the sanitizer workload)
PLAN = {
    "C01": [("tsan", ["--tier", "quick", "--cases", "10"])],
    "C03": [("asan", ["--tier", "quick", "--sources", "1"])],
    "C10": [("memcheck", ["--stage", "san"]), ("asan", ["--stage", "san"])],
    "C11": [("memcheck", ["--stage", "san"]), ("asan", ["--stage", "san"])],
    "C12": [("memcheck", ["--stage", "san"]), ("tsan", ["--stage", "san"])],
    "C13": [("memcheck", ["--stage", "san"])],
    "C14": [("memcheck", ["--stage", "san"])],
    "C16": [("memcheck", ["--stage", "san"]), ("asan", ["--stage", "san"])],
    "C15": [("tsan", ["--tier", "quick"])],
    "C17": [("tsan", ["--tier", "quick"])],
    "C20": [("memcheck", ["--tier", "quick", "--part", "c"]), ("asan", ["--tier", "quick", "--part", "c"])],
}
if os.environ.get("MZV_SAN_TOOLS"):
    allowed = set(os.environ["MZV_SAN_TOOLS"].split(","))
else:
    allowed = {"memcheck", "asan", "tsan"}

env_base = dict(os.environ, CARGO_NET_OFFLINE="true")
scratch = f"{TARGET}/san"
os.makedirs(scratch, exist_ok=True)


def build(tool):
    if tool == "memcheck":
        return f"{TARGET}/release/{binname}", None
    tdir = f"{ROOT}/target-{tool}"
    env = dict(env_base, CARGO_TARGET_DIR=tdir)
    cmd = ["cargo", "+nightly", "build", "--release", "--offline", "--features", "hooks", "--bin", binname,
           "--target", "x86_64-unknown-linux-gnu"]
    if tool == "asan":
        env["RUSTFLAGS"] = "-Zsanitizer=address -Cforce-frame-pointers=yes"
    else:
        env["RUSTFLAGS"] = "-Zsanitizer=thread"
        cmd.insert(3, "-Zbuild-std")
    log = f"{scratch}/build-{prop}-{tool}.log"
    with open(log, "w") as f:
        r = subprocess.run(cmd, cwd=f"{ROOT}/harness", env=env, stdout=f, stderr=subprocess.STDOUT)
    if r.returncode != 0:
        return None, log
    return f"{tdir}/x86_64-unknown-linux-gnu/release/{binname}", None


def first_repo_frame(block):
    for line in block.splitlines():
        m = re.search(r"(/repo/[\w/.\-]+\.rs)", line)
        if m:
            return m.group(1).replace("/repo/", "")
    for line in block.splitlines():
        m = re.search(r"(harness/src/[\w/.\-]+\.rs)", line)
        if m:
            return "harness:" + m.group(1)
    return "unknown-frame"


def run_tool(tool, exe, args):
    ev = f"{scratch}/{prop}-{tool}.json"
    log = f"{scratch}/{prop}-{tool}.log"
    cmd = [exe] + args + ["--seed", seed, "--evidence", ev]
    env = dict(env_base)
    if tool == "memcheck":
        cmd = ["valgrind", "--error-exitcode=99", "--leak-check=no", "--num-callers=30", f"--log-file={log}"] + cmd
    elif tool == "asan":
        env["ASAN_OPTIONS"] = f"halt_on_error=1:abort_on_error=0:detect_leaks=1:log_path={log}:exitcode=98"
        env["LSAN_OPTIONS"] = "exitcode=97"
    else:
        env["TSAN_OPTIONS"] = f"halt_on_error=0:log_path={log}:exitcode=66"
    t0 = time.time()
    try:
        r = subprocess.run(cmd, cwd=ROOT, env=env, stdout=subprocess.PIPE, stderr=subprocess.STDOUT, timeout=3 * 3600)
        rc, out = r.returncode, r.stdout.decode(errors="replace")
    except subprocess.TimeoutExpired:
        return {"tool": tool, "status": "inconclusive", "why": "watchdog (3h) fired"}
    wall = time.time() - t0
    # collect report text
    text = ""
    for fn in os.listdir(scratch):
        if fn.startswith(os.path.basename(log)):
            text += open(os.path.join(scratch, fn), errors="replace").read()
    reports = []
    if tool == "memcheck":
        blocks = re.split(r"\n==\d+== \n", text)
        for b in blocks:
            if re.search(r"Invalid (read|write)|uninitialised|Mismatched free|Invalid free|overlap", b):
                reports.append(b)
    elif tool == "asan":
        if "ERROR: AddressSanitizer" in text or "ERROR: LeakSanitizer" in text:
            reports = re.split(r"(?==+\d+==ERROR)", text)[1:]
    else:
        reports = re.split(r"(?=WARNING: ThreadSanitizer)", text)[1:]
    # ThreadSanitizer does not model the fence-based synchronisation of crossbeam-deque (the
    # work-stealing queue inside rayon): races whose two access stacks both END inside
    # crossbeam / rayon-core internals are a documented tool limitation, not repository code.
    runtime_internal = 0
    if tool == "tsan":
        kept = []
        for b in reports:
            stacks = re.split(r"\n\s*\n", b)
            access = [st for st in stacks if re.search(r"(Write|Read|Previous (atomic )?(write|read)|Atomic (write|read)) of size", st)]
            def innermost(st):
                fr = [l for l in st.splitlines() if re.match(r"\s+#[0-3] ", l)]
                return fr
            internal = bool(access) and all(
                all(re.search(r"crossbeam[-_](deque|epoch|utils)|rayon[-_]core|/library/core/src/(ptr|sync|mem)|/library/std/src/sync", l) for l in innermost(st))
                for st in access)
            if internal:
                runtime_internal += 1
            else:
                kept.append(b)
        reports = kept
    dedup = {}
    for b in reports:
        dedup.setdefault(first_repo_frame(b), b)
    covered = {}
    try:
        covered = json.load(open(ev))["coverage"]
    except Exception:
        pass
    check_rc_ok = rc in (0,) or (rc in (66, 97, 98, 99))
    res = {"tool": tool, "exit_code": rc, "wall_s": round(wall, 1), "reports": len(reports), "deduped": sorted(dedup),
           "workload": {"args": args, "evaluations": covered.get("evaluations"), "distinct_nontrivial": covered.get("distinct_nontrivial")},
           "runtime_internal_reports_ignored": runtime_internal,
           "status": "clean" if not reports and rc in (0, 66) and (rc == 0 or runtime_internal) else ("reports" if reports else "inconclusive")}
    if not reports and rc != 0:
        res["why"] = f"check binary exited {rc} under the tool without a sanitizer report; tail: " + out[-400:]
    res["_blocks"] = dedup
    res["_log"] = log
    return res


def known(signature):
    try:
        kf = json.load(open(f"{ROOT}/known_findings.json"))["findings"]
    except Exception:
        return False
    return any(e.get("property") == prop and e.get("signature") == signature and e.get("status") == "known" for e in kf)


stages, violations = [], []
for tool, args in PLAN.get(prop, []):
    if tool not in allowed:
        continue
    exe, buildlog = build(tool)
    if exe is None:
        stages.append({"tool": tool, "status": "inconclusive", "why": f"sanitizer build failed, see {buildlog}"})
        continue
    res = run_tool(tool, exe, args)
    for frame, block in res.pop("_blocks", {}).items():
        sig = f"{prop}/san/{tool}@{frame}"
        if known(sig):
            print(f"KNOWN-FINDING: property={prop} {sig}")
        else:
            os.makedirs(f"{ROOT}/replays/{prop}", exist_ok=True)
            path = f"{ROOT}/replays/{prop}/san-{tool}-{abs(hash(frame)) % 10**8}.txt"
            open(path, "w").write(block)
            violations.append((sig, path))
    res.pop("_log", None)
    stages.append(res)

try:
    e = json.load(open(evidence))
    e["coverage"]["sanitizer_stages"] = stages
    if violations:
        e["violations"] = e.get("violations", 0) + len(violations)
        e["coverage"].setdefault("violation_signatures", []).extend(s for s, _ in violations)
    json.dump(e, open(evidence, "w"), indent=1)
except Exception as ex:
    print(f"san_stage: cannot merge into evidence: {ex}")
for s in stages:
    print(f"[{prop}] sanitizer stage {s['tool']}: {s['status']} reports={s.get('reports')} wall={s.get('wall_s')}s")
for sig, path in violations:
    print(f"VIOLATION property={prop} replay={path}")
    print(f"  signature: {sig}")
sys.exit(1 if violations else 0)
