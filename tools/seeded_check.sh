#!/bin/bash
# tools/seeded_check.sh <patch.diff> <Cxx> <tier> [extra args] : run a check against a scratch worktree of
# /repo HEAD with the patch applied; prints the VIOLATION/summary lines; removes the worktree afterwards.
set -u
PATCH="$1"; PROP="$2"; TIER="${3:-quick}"; shift 3
NAME="seedchk-$$"
WT="/tmp/$NAME"
git -C /repo worktree add -q "$WT" HEAD || exit 2
if ! git -C "$WT" apply "$PATCH"; then echo "PATCH DOES NOT APPLY"; git -C /repo worktree remove --force "$WT"; exit 2; fi
/verif/tools/mutant_run.sh "$WT" "$PROP" "$TIER" "$@" 2>&1 | grep -E "VIOLATION|signature|KNOWN-FINDING|INCONCLUSIVE|BUILD FAILED|^\[$PROP\]" | sort | uniq -c | head -20
git -C /repo worktree remove --force "$WT"; rm -rf "$WT.mzv"
