#!/usr/bin/env python3
"""Writes /verif/seeded/<id>/meta.json for every seeded change from the table in DESIGN.md §10.3
(change, what it needs to manifest, which check catches it) and the SUMMARY line of confirm.log."""
import json, os, re
ROOT = "/verif"
rows = {}
for line in open(f"{ROOT}/DESIGN.md"):
    m = re.match(r"\| (C\d\d-\d) \| (.*) \| (.*) \|\s*$", line)
    if m:
        rows[m.group(1)] = (m.group(2).strip(), m.group(3).strip())
for sid in sorted(os.listdir(f"{ROOT}/seeded")):
    d = f"{ROOT}/seeded/{sid}"
    if not os.path.isdir(d) or sid not in rows:
        print("no DESIGN row for", sid)
        continue
    change, caught = rows[sid]
    needs = ""
    m = re.match(r"(.*)\((.*)\)\s*$", change)
    if m:
        change, needs = m.group(1).strip(), m.group(2).strip()
    summary = ""
    try:
        for l in open(f"{d}/confirm.log"):
            if l.startswith("SUMMARY"):
                summary = l.strip()
    except FileNotFoundError:
        pass
    meta = {
        "seeded_id": sid,
        "property": sid[:3],
        "change": change,
        "needs_to_manifest": needs or "see notes.md",
        "produced_by": "fresh sub-agent given only the property record and a scratch worktree",
        "confirmed_by_coordinator": {
            "how": "tools/confirm_seeded.sh / confirm_seeded_append.sh in a scratch worktree: demo passes on pristine HEAD, fails with patch.diff applied; the changed package's own test suite passes with the patch (zk_stdlib: only the SRS-dependent tests fail, as in the baseline)",
            "summary": summary or "not confirmed yet",
        },
        "detected_by": caught,
        "ran": "tools/seeded_check.sh <patch> <Cxx> quick (scratch worktree of /repo HEAD + patch, harness rebuilt against it)",
    }
    json.dump(meta, open(f"{d}/meta.json", "w"), indent=1)
print("meta.json written for", len([s for s in os.listdir(f"{ROOT}/seeded") if s in rows]), "seeded changes")
